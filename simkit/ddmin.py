"""Minimisation of a failing (configuration, decision list) pair.

Every candidate is one deterministic re-execution; a candidate is accepted
only if the *same invariant* fails.  The result is re-recorded from the
accepted execution, so the replay file is exact even when a shrunk schedule
became infeasible on the way.
"""
import time


def _same(mod, res, target):
    if res.get("harness_error"):
        return False
    v = res.get("violations") or []
    if not v:
        return False
    if hasattr(mod, "violation_class"):
        return mod.violation_class(v[0]) == target
    return v[0]["inv"] == target


def _segments(decisions):
    segs = []
    for d in decisions:
        if segs and segs[-1][0] == d:
            segs[-1][1] += 1
        else:
            segs.append([d, 1])
    return segs


def _flatten(segs):
    out = []
    for d, n in segs:
        out.extend([d] * n)
    return out


def minimise(mod, cfg, decisions, res, budget_s=20.0):
    t_end = time.time() + budget_s
    v0 = res["violations"][0]
    target = mod.violation_class(v0) if hasattr(mod, "violation_class") else v0["inv"]
    tried = 0
    best = (cfg, decisions, res)

    def attempt(c, d, max_segments=None):
        nonlocal tried, best
        tried += 1
        r = mod.run_config(c, decisions=d)
        if _same(mod, r, target):
            if max_segments is not None and len(_segments(r.get("decisions") or [])) > max_segments:
                return False        # still fails, but is not simpler
            best = (c, r.get("decisions") if d is not None else None, r)
            return True
        return False

    # 1. structural shrinking (drop processes / faults / operations, simpler arguments)
    progress = True
    while progress and time.time() < t_end:
        progress = False
        for c, d in mod.shrink_candidates(best[0], best[1]):
            if time.time() >= t_end:
                break
            if attempt(c, d):
                progress = True
                break
    # 2. schedule shrinking: shortest explicit prefix, then fewest context switches
    if best[1] is not None and getattr(mod, "SCHEDULE_SHRINK", False):
        d = best[1]
        lo, hi = 0, len(d)
        while lo < hi and time.time() < t_end:
            mid = (lo + hi) // 2
            if attempt(best[0], d[:mid], max_segments=len(_segments(best[1]))):
                hi = mid
                d = d[:mid]
            else:
                lo = mid + 1
        # ddmin over the run-length segments of the schedule: drop chunks of
        # segments (the dropped steps are re-scheduled by the replay chooser's
        # fallback: continue the current actor, else the first runnable one),
        # halving the chunk size down to single segments
        chunk = max(1, len(_segments(best[1])) // 2)
        while chunk >= 1 and time.time() < t_end:
            segs = _segments(best[1])
            improved = False
            i = 0
            while i < len(segs) and time.time() < t_end:
                cand = _flatten(segs[:i] + segs[i + chunk:])
                before = len(segs)
                if attempt(best[0], cand, max_segments=before - 1):
                    segs = _segments(best[1])
                    improved = True
                else:
                    i += chunk
            if not improved or chunk > 1:
                chunk //= 2
    return best + (tried,)
