"""Baton-passing scheduler: N logical processes are real threads, exactly one
of which runs at any time; *which* one is decided here, never by the OS.

Pre-emption points are (a) `line` trace events in frames whose code lives in
one of `trace_files`, (b) explicit `yield_point()` calls from the seams
(scripted compiler, loader, os proxy, simulated lock).

A simulated `kill -9` is "never hand the baton to this thread again": no
`finally`, no `__exit__`, no buffered-write flush runs.  Parked threads are
released with the `Killed` BaseException only during teardown, after the
verdict is final.
"""
import gc
import hashlib
import json
import os
import sys
import threading
import traceback


class Killed(BaseException):
    """Raised inside a parked actor thread at teardown."""


class HarnessError(Exception):
    pass


def _quiet_unraisable(unraisable, _prev=sys.unraisablehook):
    # a parked actor released at teardown may be inside a __del__ frame
    if unraisable.exc_type is Killed:
        return
    _prev(unraisable)


sys.unraisablehook = _quiet_unraisable


class Actor(object):
    def __init__(self, sched, aid, name, fn, start_at, parent, kind):
        self.sched = sched
        self.id = aid
        self.name = name
        self.fn = fn
        self.start_at = start_at
        self.parent = parent        # Actor that waits for this one (compiler's parent)
        self.kind = kind            # 'proc' | 'cc' | 'thread'
        self.children = []
        self.state = "runnable"     # runnable | blocked | done | killed
        self.blocked_on = None
        self.ev = threading.Event()
        self.thread = None
        self.result = None
        self.exc = None             # (type name, message, traceback text)
        self.steps = 0
        self.started = False
        self.data = {}              # free for the check

    def __repr__(self):
        return "<Actor %s %s>" % (self.name, self.state)


# ----------------------------------------------------------------- choosers

class UniformChooser(object):
    kind = "uniform"

    def __init__(self, rng):
        self.rng = rng

    def choose(self, sched, runnable):
        return runnable[self.rng.randrange(len(runnable))]

    def on_spawn(self, actor):
        pass


class StickyChooser(object):
    kind = "sticky"

    def __init__(self, rng, p):
        self.rng = rng
        self.p = p

    def choose(self, sched, runnable):
        cur = sched.last_actor
        if cur is not None and cur in runnable and self.rng.random() < self.p:
            return cur
        return runnable[self.rng.randrange(len(runnable))]

    def on_spawn(self, actor):
        pass


class PCTChooser(object):
    """Random distinct priorities; highest runnable runs; at `d` random step
    indices the running actor's priority drops below everything else."""
    kind = "pct"

    def __init__(self, rng, d, horizon):
        self.rng = rng
        self.prio = {}
        self.low = 0
        self.change = sorted(rng.randrange(1, max(2, horizon)) for _ in range(d))

    def on_spawn(self, actor):
        self.prio[actor.id] = self.rng.random() + 1.0

    def choose(self, sched, runnable):
        while self.change and sched.step >= self.change[0]:
            self.change.pop(0)
            cur = sched.last_actor
            if cur is not None:
                self.low -= 1
                self.prio[cur.id] = self.low
        return max(runnable, key=lambda a: (self.prio.get(a.id, 0), -a.id))


class ReplayChooser(object):
    """Drive from a recorded decision list.  When the recorded actor is not
    runnable (a shrunk schedule became infeasible) take the first runnable
    actor in id order and count the divergence."""
    kind = "replay"

    def __init__(self, decisions, tail="first"):
        self.decisions = list(decisions)
        self.pos = 0
        self.divergences = 0
        self.tail = tail

    def on_spawn(self, actor):
        pass

    def choose(self, sched, runnable):
        want = None
        # entries that name a process which has already finished (or was
        # killed) are skipped, not spent: "P0 x N" means "P0 until it is done"
        while self.pos < len(self.decisions):
            want = self.decisions[self.pos]
            alive = any((a.name == want or a.data.get("owner") == want) and a.state in ("runnable", "blocked")
                        for a in sched.actors)
            if alive:
                break
            want = None
            self.pos += 1
        self.pos += 1
        if want is not None:
            for a in runnable:
                if a.name == want:
                    return a
            for a in runnable:       # "P0" also names P0's compiler child
                if a.data.get("owner") == want:
                    return a
            self.divergences += 1
        # prefer continuing the current actor: fewest context switches
        cur = sched.last_actor
        if cur is not None and cur in runnable:
            return cur
        return runnable[0]


def make_chooser(policy, rng):
    kind = policy["kind"]
    if kind == "uniform":
        return UniformChooser(rng)
    if kind == "sticky":
        return StickyChooser(rng, policy["p"])
    if kind == "pct":
        return PCTChooser(rng, policy["d"], policy["horizon"])
    raise ValueError(kind)


# ---------------------------------------------------------------- scheduler

class Scheduler(object):
    def __init__(self, chooser, step_cap, trace_files=(), on_step=None,
                 label_filter=None):
        self.chooser = chooser
        self.step_cap = step_cap
        self.trace_files = set(trace_files)
        self.on_step = on_step
        self.actors = []
        self.by_name = {}
        self.step = 0
        self.control = threading.Event()
        self.tls = threading.local()
        self.last_actor = None
        self.last_event = None
        self.events = []            # (step, actor name, label, detail)
        self.decisions = []         # actor names, one per step
        self.tearing_down = False
        self.stop_reason = None
        self.switches = 0           # context switches between two live actors
        self.preempted_mid = 0      # switches away from an actor that was not blocked/done
        self._short = {}
        self._gc_was_enabled = False
        self.on_switch_out = None
        self.on_switch_in = None

    # -- actor management ---------------------------------------------------
    def spawn(self, name, fn, start_at=0, parent=None, kind="proc"):
        a = Actor(self, len(self.actors), name, fn, start_at, parent, kind)
        if parent is not None:
            parent.children.append(a)
        self.actors.append(a)
        self.by_name[name] = a
        self.chooser.on_spawn(a)
        t = threading.Thread(target=self._body, args=(a,), name="sim-" + name)
        t.daemon = True
        a.thread = t
        t.start()
        return a

    def current(self):
        return getattr(self.tls, "actor", None)

    def _body(self, a):
        a.ev.wait()
        a.ev.clear()
        if self.tearing_down or a.state == "killed":
            return
        self.tls.actor = a
        a.started = True
        if self.on_switch_in is not None:
            self.on_switch_in(a)
        if self.trace_files:
            sys.settrace(self._global_trace)
        try:
            a.result = a.fn(a)
        except Killed:
            sys.settrace(None)
            return
        except BaseException as exc:  # the simulated process failed
            a.exc = (type(exc).__name__, str(exc)[:2000],
                     traceback.format_exc()[-4000:])
        finally:
            sys.settrace(None)
        if self.tearing_down:
            return
        if self.on_switch_out is not None:
            self.on_switch_out(a)
        a.state = "done"
        self._log(a, "exit", "ok" if a.exc is None else "exc:" + a.exc[0])
        p = a.parent
        if p is not None and p.state == "blocked" and p.blocked_on is a:
            p.state = "runnable"
            p.blocked_on = None
        self.control.set()

    # -- tracing ------------------------------------------------------------
    def _global_trace(self, frame, event, arg):
        if frame.f_code.co_filename in self.trace_files:
            return self._local_trace
        return None

    def _local_trace(self, frame, event, arg):
        if event == "line":
            code = frame.f_code
            fn = self._short.get(code.co_filename)
            if fn is None:
                fn = self._short[code.co_filename] = os.path.basename(code.co_filename)
            self.yield_point("%s:%s:%d" % (fn, code.co_name, frame.f_lineno))
        return self._local_trace

    # -- pre-emption --------------------------------------------------------
    def _log(self, a, label, detail=None):
        ev = (self.step, a.name, label, detail)
        self.events.append(ev)
        self.last_event = ev

    def _park(self, a):
        """Hand the baton back to the scheduler and wait to be chosen again.
        The switch hooks let a check keep per-process state (e.g. a module's
        globals) private to each simulated process."""
        if self.on_switch_out is not None:
            self.on_switch_out(a)
        self.control.set()
        a.ev.wait()
        a.ev.clear()
        if self.tearing_down or a.state == "killed":
            raise Killed()
        if self.on_switch_in is not None:
            self.on_switch_in(a)

    def yield_point(self, label, detail=None):
        a = self.current()
        if a is None:
            return
        if self.tearing_down:
            raise Killed()
        self._log(a, label, detail)
        self._park(a)

    def note(self, label, detail=None):
        """Record an event without yielding."""
        a = self.current()
        if a is not None and not self.tearing_down:
            self._log(a, label, detail)

    def wait_child(self, child):
        """Block the calling actor until `child` is done (waitpid)."""
        a = self.current()
        if child.state == "done":
            return
        a.state = "blocked"
        a.blocked_on = child
        self._log(a, "wait", child.name)
        self._park(a)

    def block(self, what):
        """Mark the calling actor blocked on `what` and yield (sim lock)."""
        a = self.current()
        a.state = "blocked"
        a.blocked_on = what
        self._log(a, "block", str(what))
        self._park(a)

    # -- faults ---------------------------------------------------------------
    def kill(self, actor, group):
        if actor.state in ("done", "killed"):
            return False
        actor.state = "killed"
        if group:
            for c in actor.children:
                if c.state not in ("done", "killed"):
                    c.state = "killed"
        else:
            for c in actor.children:
                c.parent = None   # orphan: nobody waits for it any more
        return True

    # -- main loop ------------------------------------------------------------
    def run(self):
        # Cyclic garbage collection is triggered by allocation counts, which
        # depend on OS-level timing of the baton hand-over (whether a thread
        # reaches its Event.wait before or after it is set).  A collection
        # can run a traced __del__, so it must not happen at a time the
        # simulator does not decide: collect only at teardown.
        if not self._gc_was_enabled:
            self._gc_was_enabled = gc.isenabled() or None
        gc.disable()
        while True:
            live = [a for a in self.actors if a.state == "runnable"]
            runnable = [a for a in live if a.start_at <= self.step]
            if not runnable:
                if live:
                    self.step = min(a.start_at for a in live)
                    continue
                blocked = [a for a in self.actors if a.state == "blocked"]
                self.stop_reason = "deadlock" if blocked else "quiescent"
                return
            if self.step >= self.step_cap:
                self.stop_reason = "step_cap"
                return
            a = self.chooser.choose(self, runnable)
            self.decisions.append(a.name)
            prev = self.last_actor
            if prev is not None and prev is not a:
                self.switches += 1
                if prev.state == "runnable":
                    self.preempted_mid += 1
            self.last_actor = a
            a.steps += 1
            self.control.clear()
            a.ev.set()
            if not self.control.wait(60.0):
                raise HarnessError("actor %s did not yield within 60 s at step %d"
                                   % (a.name, self.step))
            self.step += 1
            if self.on_step is not None:
                self.on_step(self, a)

    def teardown(self):
        self.tearing_down = True
        try:
            self._teardown()
        finally:
            gc.collect()
            if self._gc_was_enabled:
                gc.enable()

    def _teardown(self):
        for a in self.actors:
            if a.thread.is_alive():
                if a.state != "done":
                    a.state = "killed"
                a.ev.set()
        stuck = []
        for a in self.actors:
            a.thread.join(10.0)
            if a.thread.is_alive():
                stuck.append(a.name)
        if stuck:
            raise HarnessError("threads did not unwind: %s" % stuck)

    # -- digests --------------------------------------------------------------
    def digest(self, header):
        h = hashlib.sha256()
        h.update(json.dumps(header, sort_keys=True, default=str).encode())
        for ev in self.events:
            h.update(json.dumps(ev, default=str).encode())
        return h.hexdigest()

    def shape(self):
        """Digest of the label sequence with actor names canonicalised by
        order of first appearance: the measure of distinct interleavings."""
        names = {}
        h = hashlib.sha256()
        for _, who, label, _ in self.events:
            k = names.setdefault(who, len(names))
            h.update(("%d|%s;" % (k, label)).encode())
        return h.hexdigest()[:16]


class SimLock(object):
    """Drop-in for threading.Lock whose blocking is visible to the scheduler."""

    def __init__(self, sched, name="lock", reentrant=False):
        self.sched = sched
        self.name = name
        self.reentrant = reentrant
        self.depth = 0
        self.owner = None
        self.waiters = []
        self.acquisitions = 0
        self.contended = 0

    def acquire(self, blocking=True, timeout=-1):
        s = self.sched
        me = s.current()
        if me is None:          # outside the simulation: behave as a free lock
            return True
        s.yield_point("lock:acquire:" + self.name)
        if self.owner is me and self.reentrant:
            self.depth += 1
            return True
        while self.owner is not None:
            if not blocking:
                return False
            self.contended += 1
            self.waiters.append(me)
            s.block(self.name)
        self.owner = me
        self.depth = 1
        self.acquisitions += 1
        return True

    def release(self):
        s = self.sched
        me = s.current()
        if me is None:
            return
        if self.reentrant and self.depth > 1:
            self.depth -= 1
            return
        self.depth = 0
        self.owner = None
        ws, self.waiters = self.waiters, []
        for w in ws:
            if w.state == "blocked":
                w.state = "runnable"
                w.blocked_on = None
        s.yield_point("lock:release:" + self.name)

    def __enter__(self):
        self.acquire()
        return self

    def __exit__(self, *exc):
        self.release()
        return False

    def locked(self):
        return self.owner is not None
