"""Lock-step real processes.

Every "process" of the simulated system is an os.fork() of the calling
(pristine) process: a long-lived *session* child that executes commands sent
over a pipe, or a one-shot *fresh* child.  The parent blocks on the pipe, so
exactly one process runs at any time: real processes, real dlopen tables,
real module caches - but who runs is decided by the simulator.

"Crash/restart" is SIGKILL + waitpid of the session and a new fork.
"""
import os
import pickle
import select
import signal
import struct
import sys
import traceback

from simkit.baton import HarnessError

TIMEOUT = 180.0


def _send(fd, obj):
    data = pickle.dumps(obj, protocol=4)
    os.write(fd, struct.pack("<Q", len(data)))
    view = memoryview(data)
    while view:
        n = os.write(fd, view[:65536])
        view = view[n:]


def _recv(fd, timeout=None):
    def read_exact(n):
        buf = b""
        while len(buf) < n:
            if timeout is not None:
                r, _, _ = select.select([fd], [], [], timeout)
                if not r:
                    raise HarnessError("simulated process did not answer within %.0f s" % timeout)
            chunk = os.read(fd, n - len(buf))
            if not chunk:
                raise EOFError()
            buf += chunk
        return buf
    (n,) = struct.unpack("<Q", read_exact(8))
    return pickle.loads(read_exact(n))


class Session(object):
    """A long-lived simulated process executing `handler(state, cmd)`."""

    def __init__(self, handler, init=None):
        c2p_r, c2p_w = os.pipe()
        p2c_r, p2c_w = os.pipe()
        sys.stdout.flush()
        sys.stderr.flush()
        pid = os.fork()
        if pid == 0:
            code = 0
            try:
                os.close(c2p_r)
                os.close(p2c_w)
                state = {}
                if init is not None:
                    init(state)
                while True:
                    try:
                        cmd = _recv(p2c_r)
                    except EOFError:
                        break
                    if cmd == ("__exit__",):
                        break
                    try:
                        resp = ("ok", handler(state, cmd))
                    except BaseException:
                        resp = ("harness_exc", traceback.format_exc()[-4000:])
                    _send(c2p_w, resp)
            except BaseException:
                code = 3
            finally:
                os._exit(code)
        os.close(c2p_w)
        os.close(p2c_r)
        self.pid = pid
        self._r = c2p_r
        self._w = p2c_w
        self.alive = True
        self.calls = 0

    def call(self, cmd):
        if not self.alive:
            raise HarnessError("call on a dead session")
        _send(self._w, cmd)
        try:
            kind, payload = _recv(self._r, TIMEOUT)
        except EOFError:
            self.alive = False
            _, status = os.waitpid(self.pid, 0)
            self._close()
            return ("died", status)
        except HarnessError as exc:
            self.kill()
            raise HarnessError("%s (command %s)" % (exc, repr(cmd)[:400]))
        self.calls += 1
        if kind == "harness_exc":
            raise HarnessError("simulated process harness failed:\n" + payload)
        return ("ok", payload)

    def _close(self):
        for fd in (self._r, self._w):
            try:
                os.close(fd)
            except OSError:
                pass

    def kill(self):
        """kill -9: nothing in the child gets to run again."""
        if self.alive:
            self.alive = False
            try:
                os.kill(self.pid, signal.SIGKILL)
            except OSError:
                pass
            os.waitpid(self.pid, 0)
            self._close()

    def close(self):
        if self.alive:
            try:
                _send(self._w, ("__exit__",))
            except OSError:
                pass
            self.kill()


def fresh_call(handler, cmd, init=None):
    """Run one command in a one-shot process forked from the caller."""
    s = Session(handler, init)
    try:
        return s.call(cmd)
    finally:
        s.close()
