"""One integer decides everything.

derive(seed, *labels) gives an independent 64-bit integer for every named
sub-stream, so adding a fault kind never shifts the schedule stream.
Nothing in here reads a clock.
"""
import hashlib
import random


def derive(seed, *labels):
    h = hashlib.sha256()
    h.update(repr(int(seed)).encode())
    for lab in labels:
        h.update(b"\0")
        h.update(str(lab).encode())
    return int.from_bytes(h.digest()[:8], "big")


def stream(seed, *labels):
    return random.Random(derive(seed, *labels))


class Streams(object):
    """Named sub-streams of one run seed."""

    def __init__(self, run_seed):
        self.run_seed = run_seed
        self._cache = {}

    def __getitem__(self, name):
        if name not in self._cache:
            self._cache[name] = stream(self.run_seed, name)
        return self._cache[name]
