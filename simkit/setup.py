"""./run setup - verify the offline environment; build nothing else (the
framework is pure Python and is run from source)."""
import importlib
import os
import subprocess
import sys


def main():
    from simkit.common import REPO, ensure_repo_on_path
    ok = True
    try:
        sm = ensure_repo_on_path()
        print("sasmodels from", os.path.dirname(sm.__file__))
    except Exception as exc:
        print("setup: cannot import sasmodels from %s: %s" % (REPO, exc))
        ok = False
    for name in ("numpy", "scipy"):
        try:
            m = importlib.import_module(name)
            print(name, m.__version__)
        except Exception as exc:
            print("setup: missing", name, exc)
            ok = False
    try:
        out = subprocess.check_output([os.environ.get("CC", "cc"), "--version"]).decode().splitlines()[0]
        print("cc:", out)
    except Exception as exc:
        print("setup: no C compiler:", exc)
        ok = False
    base = "/dev/shm" if os.path.isdir("/dev/shm") and os.access("/dev/shm", os.W_OK) else "/tmp"
    print("scratch base:", base)
    os.makedirs(os.path.join(os.path.dirname(os.path.dirname(os.path.abspath(__file__))), "evidence"), exist_ok=True)
    return 0 if ok else 2
