"""Content-addressed memo in front of the real C compiler.

A pure speed-up: the same source text and flags give a library with the
same code.  Used by the lock-step simulations (C17, C11, C01) where the
compiler is *real* but called thousands of times with a handful of distinct
sources.  Shared by all workers of one check invocation; entries are
published with rename so concurrent workers never see a partial entry.
"""
import hashlib
import os
import re
import shutil
import subprocess as _real


_LINE_RE = re.compile(rb'^(#line \d+ ")([^"\n]*)"', re.M)


class MemoSubprocess(object):
    CalledProcessError = _real.CalledProcessError
    STDOUT = _real.STDOUT
    PIPE = _real.PIPE
    DEVNULL = _real.DEVNULL

    def __init__(self, memo_dir):
        self.memo_dir = memo_dir
        os.makedirs(memo_dir, exist_ok=True)
        self.hits = 0
        self.misses = 0
        self.sources = []     # sha of every source compiled, in order

    def __getattr__(self, name):
        return getattr(_real, name)

    @staticmethod
    def _parse(command):
        out = src = None
        flags = []
        skip = False
        for i, arg in enumerate(command):
            if skip:
                skip = False
                continue
            if arg == "-o" and i + 1 < len(command):
                out = command[i + 1]
                skip = True
            elif arg.endswith(".c") and not arg.startswith("-"):
                src = arg
            else:
                flags.append(arg)
        return src, out, flags

    def check_output(self, command, **kw):
        kw.pop("shell", None)
        src, out, flags = self._parse(command)
        if src is None or out is None:
            return _real.check_output(command, **kw)
        with open(src, "rb") as fid:
            text = fid.read()
        # #line directives carry absolute paths (per-run scratch directories);
        # they do not change the generated code, so key on the basename
        keytext = _LINE_RE.sub(lambda m: m.group(1) + m.group(2).rsplit(b"/", 1)[-1] + b'"', text)
        key = hashlib.sha256(keytext + b"\0" + " ".join(flags).encode()).hexdigest()
        self.sources.append(key[:16])
        entry = os.path.join(self.memo_dir, key + ".so")
        if os.path.exists(entry):
            self.hits += 1
            if os.path.lexists(out):
                os.unlink(out)
            shutil.copyfile(entry, out)
            os.chmod(out, 0o755)
            return b""
        self.misses += 1
        result = _real.check_output(command, **kw)
        if os.path.exists(out):
            tmp = "%s.%d.tmp" % (entry, os.getpid())
            shutil.copyfile(out, tmp)
            os.replace(tmp, entry)
        return result
