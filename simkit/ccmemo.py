"""Content-addressed memo in front of the real C compiler.

A pure speed-up: the same source text and flags give a library with the
same code.  Used by the lock-step simulations (C17, C11, C01) where the
compiler is *real* but called thousands of times with a handful of distinct
sources.  Shared by all workers of one check invocation; entries are
published with rename so concurrent workers never see a partial entry.
"""
import hashlib
import os
import re
import shutil
import subprocess as _real


_LINE_RE = re.compile(rb'^(#line \d+ ")([^"\n]*)"', re.M)


class MemoSubprocess(object):
    CalledProcessError = _real.CalledProcessError
    STDOUT = _real.STDOUT
    PIPE = _real.PIPE
    DEVNULL = _real.DEVNULL

    def __init__(self, memo_dir):
        self.memo_dir = memo_dir
        os.makedirs(memo_dir, exist_ok=True)
        self.hits = 0
        self.misses = 0
        self.sources = []     # sha of every source compiled, in order

    def __getattr__(self, name):
        return getattr(_real, name)

    @staticmethod
    def _parse(command):
        out = src = None
        flags = []
        skip = False
        for i, arg in enumerate(command):
            if skip:
                skip = False
                continue
            if arg == "-o" and i + 1 < len(command):
                out = command[i + 1]
                skip = True
            elif arg.endswith(".c") and not arg.startswith("-"):
                src = arg
            else:
                flags.append(arg)
        return src, out, flags

    def check_output(self, command, **kw):
        kw.pop("shell", None)
        src, out, flags = self._parse(command) if isinstance(command, (list, tuple)) else (None, None, None)
        if src is None or out is None:
            return _real.check_output(command, **kw)
        with open(src, "rb") as fid:
            text = fid.read()
        # #line directives carry absolute paths (per-run scratch directories);
        # they do not change the generated code, so key on the basename
        keytext = _LINE_RE.sub(lambda m: m.group(1) + m.group(2).rsplit(b"/", 1)[-1] + b'"', text)
        key = hashlib.sha256(keytext + b"\0" + " ".join(flags).encode()).hexdigest()
        self.sources.append(key[:16])
        entry = os.path.join(self.memo_dir, key + ".so")
        text_mode = kw.get("text") or kw.get("universal_newlines") or kw.get("encoding")
        if os.path.exists(entry):
            self.hits += 1
            if os.path.lexists(out):
                os.unlink(out)
            shutil.copyfile(entry, out)
            os.chmod(out, 0o755)
            return "" if text_mode else b""
        self.misses += 1
        result = _real.check_output(command, **kw)
        if os.path.exists(out):
            tmp = "%s.%d.tmp" % (entry, os.getpid())
            shutil.copyfile(out, tmp)
            os.replace(tmp, entry)
        return result

    # the other ways of running the compiler and waiting for it go through the same memo
    def run(self, command, **kw):
        check = kw.pop("check", False)
        capture = kw.pop("capture_output", False)
        if capture:
            kw["stderr"] = _real.STDOUT
        kw.pop("stdout", None)
        try:
            out, rc = self.check_output(command, **kw), 0
        except _real.CalledProcessError as exc:
            if check:
                raise
            out, rc = exc.output, exc.returncode
        return _real.CompletedProcess(command, rc, out, out[:0] if out is not None else None)

    def check_call(self, command, **kw):
        kw.pop("stdout", None)
        self.check_output(command, **kw)
        return 0

    def call(self, command, **kw):
        kw.pop("stdout", None)
        try:
            self.check_output(command, **kw)
            return 0
        except _real.CalledProcessError as exc:
            return exc.returncode


def install(module, memo):
    """Bind *memo* wherever *module* refers to subprocess: the module under any
    alias, and functions imported from it by name."""
    import types
    for name, val in list(vars(module).items()):
        if name.startswith("__"):
            continue
        if val is _real or isinstance(val, MemoSubprocess):
            setattr(module, name, memo)
        elif isinstance(getattr(val, "__self__", None), MemoSubprocess):
            setattr(module, name, getattr(memo, val.__name__))
        elif not isinstance(val, types.ModuleType):
            rname = getattr(val, "__name__", None)
            if isinstance(rname, str) and getattr(_real, rname, None) is val and rname in (
                    "check_output", "run", "check_call", "call"):
                setattr(module, name, getattr(memo, rname))
    return memo
