"""Seams for the cooperative build simulation (C18).

All of these replace *module attributes* of sasmodels.kerneldll (subprocess,
ct, os, tempfile); the code of make_dll / compile_model / DllModel stays the
real code.  Every seam counts its uses so that a tree which reaches the
compiler or the loader by another route is detected (HARNESS-ERROR), not
silently simulated wrong.
"""
import ctypes as _real_ct
import os as _real_os
import subprocess as _real_subprocess
import tempfile as _real_tempfile
import functools
import io as _real_io
import threading
import types

# While a stand-in below is at work on behalf of the code under test, the global
# hooks (install_global_hooks) let its own calls of os.* through unchanged.
_tls = threading.local()


def _inside():
    return getattr(_tls, "depth", 0) > 0


def _g(fn):
    @functools.wraps(fn)
    def guarded(*a, **kw):
        _tls.depth = getattr(_tls, "depth", 0) + 1
        try:
            return fn(*a, **kw)
        finally:
            _tls.depth -= 1
    return guarded


class PathProxy(object):
    """Stands in for os.path inside kerneldll: existence tests are events."""

    def __init__(self, world):
        self._w = world

    def __getattr__(self, name):
        return getattr(_real_os.path, name)

    @_g
    def exists(self, path):
        r = _real_os.path.exists(path)
        self._w.on_exists(path, r)
        return r

    @_g
    def isfile(self, path):
        r = _real_os.path.isfile(path)
        self._w.on_exists(path, r)
        return r

    @_g
    def getsize(self, path):
        r = _real_os.path.getsize(path)
        self._w.on_exists(path, True)
        return r


class _FailingFile(object):
    """A file whose write fails with ENOSPC after half of the data (the disk
    filled up while the generated C source was being written)."""

    def __init__(self, f):
        self._f = f

    def __getattr__(self, name):
        return getattr(self._f, name)

    def write(self, data):
        self._f.write(data[:len(data) // 2])
        self._f.flush()
        raise OSError(28, "No space left on device (simulated)")

    def __enter__(self):
        return self

    def __exit__(self, *exc):
        self._f.close()
        return False


class OsProxy(object):
    """Stands in for the os module inside kerneldll."""

    def __init__(self, world):
        self._w = world
        self.path = PathProxy(world)

    def __getattr__(self, name):
        # every other os.<function> called from kerneldll is recorded as an
        # event too (no yield): it marks a place where the file system or the
        # process state may have changed, which the directed families use
        val = getattr(_real_os, name)
        if callable(val) and not isinstance(val, type):
            w = self._w

            @_g
            def logged(*a, **kw):
                w.note_syscall("os:" + name)
                return val(*a, **kw)
            return logged
        return val

    def getpid(self):
        return self._w.sim_pid()

    @_g
    def open(self, path, flags, *a, **kw):
        return self._w.track_fd(_real_os.open(path, flags, *a, **kw))

    @_g
    def fdopen(self, fd, *a, **kw):
        f = _real_os.fdopen(fd, *a, **kw)
        if self._w.io_fault("enospc_source_write"):
            return _FailingFile(f)
        return f

    @_g
    def unlink(self, path, *a, **kw):
        r = _real_os.unlink(path, *a, **kw)
        self._w.on_fileop("unlink", path)
        return r

    remove = unlink

    def lstat(self, path, *a, **kw):
        return self.stat(path, *a, follow_symlinks=False, **kw)

    @_g
    def replace(self, src, dst, *a, **kw):
        if self._w.io_fault("eacces_replace"):
            # Windows refuses to replace a library another process has loaded
            raise PermissionError(13, "Permission denied (simulated)", dst)
        r = _real_os.replace(src, dst, *a, **kw)
        self._w.on_fileop("replace", src, dst)
        return r

    @_g
    def rename(self, src, dst, *a, **kw):
        if self._w.io_fault("eacces_replace"):
            raise PermissionError(13, "Permission denied (simulated)", dst)
        r = _real_os.rename(src, dst, *a, **kw)
        self._w.on_fileop("rename", src, dst)
        return r

    @_g
    def link(self, src, dst, *a, **kw):
        r = _real_os.link(src, dst, *a, **kw)
        self._w.on_fileop("link", src, dst)
        return r

    @_g
    def symlink(self, src, dst, *a, **kw):
        r = _real_os.symlink(src, dst, *a, **kw)
        self._w.on_fileop("symlink", src, dst)
        return r

    @_g
    def stat(self, path, *a, **kw):
        try:
            r = _real_os.stat(path, *a, **kw)
        except OSError:
            self._w.on_exists(path, False)
            raise
        self._w.on_exists(path, True)
        return r

    @_g
    def access(self, path, *a, **kw):
        r = _real_os.access(path, *a, **kw)
        self._w.on_exists(path, r)
        return r


class TempfileProxy(object):
    """tempfile with deterministic names (logs must replay) inside a per-run
    directory; mkstemp is an event."""

    def __init__(self, world):
        self._w = world

    def __getattr__(self, name):
        return getattr(_real_tempfile, name)

    @_g
    def mkstemp(self, suffix=None, prefix=None, dir=None, text=False):
        if dir is None:
            dir = self._w.tmp_dir
        elif self._w.io_fault("enospc_mkdtemp"):
            raise OSError(28, "No space left on device (simulated)")
        fd, name = _real_tempfile.mkstemp(suffix=suffix, prefix=prefix,
                                          dir=dir, text=text)
        self._w.track_fd(fd)
        self._w.on_fileop("mkstemp", name)
        return fd, name

    @_g
    def mkdtemp(self, suffix=None, prefix=None, dir=None):
        if self._w.io_fault("enospc_mkdtemp"):
            raise OSError(28, "No space left on device (simulated)")
        if dir is None:
            dir = self._w.tmp_dir
        name = _real_tempfile.mkdtemp(suffix=suffix, prefix=prefix, dir=dir)
        self._w.on_fileop("mkdtemp", name)
        return name

    def gettempdir(self):
        return self._w.tmp_dir

    @_g
    def NamedTemporaryFile(self, *a, **kw):
        if kw.get("dir") is None:
            kw["dir"] = self._w.tmp_dir
        f = _real_tempfile.NamedTemporaryFile(*a, **kw)
        self._w.on_fileop("mkstemp", f.name)
        return f


class SubprocessShim(object):
    """kerneldll.subprocess: check_output runs the scripted compiler as a
    child actor and waits for it."""
    CalledProcessError = _real_subprocess.CalledProcessError
    STDOUT = _real_subprocess.STDOUT
    PIPE = _real_subprocess.PIPE
    DEVNULL = _real_subprocess.DEVNULL

    def __init__(self, world):
        self._w = world

    def __getattr__(self, name):
        return getattr(_real_subprocess, name)

    def check_output(self, command, **kw):
        return self._w.run_compiler(command, kw)

    def Popen(self, command, **kw):
        if self._w.sched is None or self._w.sched.current() is None:
            return _real_subprocess.Popen(command, **kw)
        return FakePopen(self._w, command, **kw)

    def getoutput(self, command):
        return self.getstatusoutput(command)[1]

    def getstatusoutput(self, command):
        import shlex
        cmd = shlex.split(command) if isinstance(command, str) else command
        try:
            out = self._w.run_compiler(cmd, {})
            return 0, out.decode()
        except _real_subprocess.CalledProcessError as exc:
            return exc.returncode, (exc.output or b"").decode()

    def check_call(self, command, **kw):
        self._w.run_compiler(command, kw)
        return 0

    def call(self, command, **kw):
        try:
            self._w.run_compiler(command, kw)
        except _real_subprocess.CalledProcessError as exc:
            return exc.returncode
        return 0

    def run(self, command, **kw):
        check = kw.pop("check", False)
        text = kw.get("text") or kw.get("universal_newlines") or kw.get("encoding")
        try:
            out = self._w.run_compiler(command, kw)
            rc = 0
        except _real_subprocess.CalledProcessError as exc:
            if check:
                if text and isinstance(exc.output, bytes):
                    exc.output = exc.output.decode()
                raise
            out, rc = exc.output, exc.returncode
        if text and isinstance(out, bytes):
            return _real_subprocess.CompletedProcess(command, rc, out.decode(), "")
        return _real_subprocess.CompletedProcess(command, rc, out, b"")


class _FakePipe(object):
    def __init__(self, data):
        self._data = data

    def read(self, *a):
        d, self._data = self._data, b""
        return d

    def close(self):
        pass


class FakePopen(object):
    """subprocess.Popen over the scripted compiler: the child starts running
    (concurrently with its parent) at construction; wait/communicate block."""

    def __init__(self, world, command, **kw):
        self._w = world
        self.args = command
        self.returncode = None
        self._out = b""
        self._child = world.start_compiler(command)
        self.pid = 2000 + self._child.id
        self.stdout = self.stderr = None

    def poll(self):
        if self._child.state == "done" and self.returncode is None:
            self.wait()
        else:
            self._w.sched.yield_point("popen:poll")
        return self.returncode

    def wait(self, timeout=None):
        if self.returncode is None:
            self.returncode, self._out = self._w.wait_compiler(self._child)
        return self.returncode

    def communicate(self, input=None, timeout=None):
        self.wait()
        return self._out, b""

    def kill(self):
        self._w.sched.kill(self._child, True)
        self.returncode = -9

    terminate = kill

    def __enter__(self):
        return self

    def __exit__(self, *exc):
        self.wait()
        return False


class CtProxy(object):
    """kerneldll.ct: everything is real ctypes except CDLL, which is guarded."""

    def __init__(self, world):
        self._w = world

    def __getattr__(self, name):
        return getattr(_real_ct, name)

    def CDLL(self, path, *a, **kw):
        return self._w.load_library(path, a, kw)

    @property
    def cdll(self):
        w = self._w

        class _L(object):
            def LoadLibrary(self, path):
                return w.load_library(path, (), {})
        return _L()


def install_name_generator(counter_holder):
    """Deterministic candidate names for tempfile (determinism of logs)."""
    class _Names(object):
        def __iter__(self):
            return self

        def __next__(self):
            counter_holder[0] += 1
            return "t%05d" % counter_holder[0]
    _real_tempfile._name_sequence = _Names()
    _real_tempfile._get_candidate_names = lambda: _real_tempfile._name_sequence


def rebind_from_imports(mod, proxies):
    """`from subprocess import run`, `from tempfile import mkdtemp`, `from ctypes
    import CDLL`, `from os import replace` ... bind the real function in the
    module under test, where replacing `mod.subprocess` etc. cannot reach it.
    Every such name is bound to the corresponding attribute of the proxy instead.
    *proxies* is a list of (real module, proxy); returns what to restore."""
    saved = {}
    for name, val in list(vars(mod).items()):
        if name.startswith("__"):
            continue
        if isinstance(val, types.ModuleType):
            # `import ctypes as ct`, `import os`, ... under whatever alias
            for real, proxy in proxies:
                if val is real:
                    saved[name] = val
                    setattr(mod, name, proxy)
                    break
            continue
        rname = getattr(val, "__name__", None)
        if not isinstance(rname, str):
            continue
        for real, proxy in proxies:
            if getattr(real, rname, None) is val:
                new = getattr(proxy, rname)
                if new is not val:
                    saved[name] = val
                    setattr(mod, name, new)
                break
    return saved


def real_modules():
    return {"os.path": _real_os.path, "os": _real_os, "subprocess": _real_subprocess,
            "tempfile": _real_tempfile, "ctypes": _real_ct}


HOOKED_OS = ("stat", "replace", "rename", "link", "symlink", "unlink", "remove", "access")


def install_global_hooks(world, os_proxy, owns_path):
    """Routes that do not go through the module's own `os` name - pathlib.Path
    methods, os.path functions imported by name, shutil.move ... - end in the real
    os module.  While a run is in progress these calls, when made by a simulated
    process on a path inside the run's directory, are handed to the same stand-in
    (events, pre-emption points, faults); everything else passes through.  Returns
    the restore function."""
    saved = {}

    def make(name, real):
        def hook(*a, **kw):
            if _inside() or not a or kw.get("dir_fd") is not None:
                return real(*a, **kw)
            s = world.sched
            me = s.current() if s is not None else None
            if me is None or getattr(me, "kind", None) != "proc":
                return real(*a, **kw)
            try:
                p = _real_os.fspath(a[0])
            except TypeError:
                return real(*a, **kw)
            if not isinstance(p, str) or not owns_path(p):
                return real(*a, **kw)
            world.probe("os_call_reached_through_global_hook")
            rest = [_real_os.fspath(x) if isinstance(x, _real_os.PathLike) else x for x in a[1:]]
            return getattr(os_proxy, name)(p, *rest, **kw)
        hook.__name__ = name
        return hook
    for name in HOOKED_OS:
        saved[name] = getattr(_real_os, name)
        setattr(_real_os, name, make(name, saved[name]))
    real_open = _real_io.open

    def open_hook(file, *a, **kw):
        f = real_open(file, *a, **kw)
        if not _inside() and isinstance(file, (str, _real_os.PathLike)):
            s = world.sched
            me = s.current() if s is not None else None
            if me is not None and getattr(me, "kind", None) == "proc" and owns_path(_real_os.fspath(file)):
                world.note_syscall("io:open")
                try:
                    world.track_fd(f.fileno())
                except (OSError, ValueError):
                    pass
        return f
    _real_io.open = open_hook

    def restore():
        for name, val in saved.items():
            setattr(_real_os, name, val)
        _real_io.open = real_open
    return restore
