"""Batch driver: seeded search over many short simulated runs on all cores,
three-way classification (held / VIOLATION / HARNESS-ERROR), known findings,
replay files, evidence.

Wall-clock time is read here only to report rates and to stop starting new
chunks; it never influences a run.
"""
import concurrent.futures as cf
import faulthandler
import json
import multiprocessing
import os
import sys
import time
import traceback

from simkit import ddmin
from simkit.common import REPO, VERIF
from simkit.prng import derive

KNOWN_FILE = os.path.join(VERIF, "KNOWN_FINDINGS.json")
_MOD = None
_TIER = None


def _compact(kind, idx, run_seed, cfg, res, mod, want_sample):
    out = {"kind": kind, "idx": idx, "seed": run_seed, "digest": res["digest"],
           "shape": res.get("shape"), "steps": res.get("steps", 0),
           "fired": res.get("fired", {}), "probes": res.get("probes", {}),
           "nontrivial": bool(res.get("nontrivial")),
           "harness_error": res.get("harness_error"),
           "nviol": len(res.get("violations") or []),
           "sim_time": res.get("sim_time", 0.0),
           "extra": res.get("extra")}
    if res.get("violations") or res.get("harness_error"):
        out["cfg"] = cfg
        out["decisions"] = res.get("decisions")
        out["violations"] = res.get("violations")
    if want_sample:
        out["sample"] = mod.sample_of(cfg, res)
    return out


def _work(chunk):
    """Runs in a forked worker: a list of (kind, idx, run_seed, cfg|None)."""
    mod, tier = _MOD, _TIER
    faulthandler.dump_traceback_later(getattr(mod, "CHUNK_TIMEOUT", 300), exit=True)
    out = []
    try:
        for kind, idx, run_seed, cfg in chunk:
            if cfg is None:
                cfg = mod.gen_config(run_seed, tier)
            try:
                res = mod.run_config(cfg)
            except Exception:
                res = {"digest": "error", "violations": [], "decisions": None,
                       "harness_error": "exception in harness: " + traceback.format_exc()[-3000:]}
            out.append(_compact(kind, idx, run_seed, cfg, res, mod, idx % 97 == 0 or idx < 3))
    finally:
        faulthandler.cancel_dump_traceback_later()
    return out


def load_known(prop):
    if not os.path.exists(KNOWN_FILE):
        return []
    with open(KNOWN_FILE) as fid:
        data = json.load(fid)
    return [e for e in data.get("findings", []) if e.get("property") == prop]


def match_known(known, key):
    for e in known:
        if e.get("status") != "known":
            continue
        for want in ([e["key"]] if "key" in e else []) + list(e.get("keys", [])):
            if all(key.get(k) == v for k, v in want.items()):
                return e
    return None


def write_replay(mod, cfg, decisions, res, run_seed, seed, tried):
    d = os.path.join(VERIF, "out", "replays", mod.PROP)
    os.makedirs(d, exist_ok=True)
    path = os.path.join(d, "%s-%s.json" % (run_seed, res["digest"][:8]))
    final = mod.run_config(cfg, decisions=decisions, keep_events=True)
    doc = {"property": mod.PROP, "verif_seed": seed, "run_seed": run_seed,
           "tree": mod.tree(), "cfg": cfg, "decisions": final.get("decisions") if decisions is not None else None,
           "digest": final["digest"], "violation": (final["violations"] or [None])[0],
           "all_violations": final["violations"], "minimisation_runs": tried,
           "trace_tail": (final.get("events") or [])[-60:]}
    with open(path, "w") as fid:
        json.dump(doc, fid, indent=1, default=str)
    return path, final


def replay(mod, path, tier):
    with open(path) as fid:
        doc = json.load(fid)
    mod.prepare(tier)
    if doc["tree"].get("traced_sha") != mod.tree().get("traced_sha"):
        print("HARNESS-ERROR replay file %s was recorded on a different tree (%s, now %s); "
              "trace labels would not line up" % (path, doc["tree"], mod.tree()))
        return 2
    res = mod.run_config(doc["cfg"], decisions=doc["decisions"], keep_events=True)
    v = (res["violations"] or [None])[0]
    same = (res["digest"] == doc["digest"]
            and (v or {}).get("inv") == (doc["violation"] or {}).get("inv"))
    print("replay digest %s (%s) violation %s" % (res["digest"][:16],
          "identical" if res["digest"] == doc["digest"] else "DIFFERENT from " + doc["digest"][:16],
          json.dumps(v)))
    if v is not None and same:
        print("VIOLATION property=%s replay=%s" % (mod.PROP, path))
        return 1
    if v is not None:
        print("HARNESS-ERROR replay diverged but still fails: %s" % json.dumps(v))
        return 2
    print("replay did not reproduce a violation")
    return 2 if doc["violation"] else 0


def run_check(mod, tier, seed, n_runs=None, workers=None, budget_s=None, quiet=False):
    global _MOD, _TIER
    t0 = time.time()
    try:
        mod.prepare(tier)
    except Exception:
        print("HARNESS-ERROR property=%s prepare failed:\n%s" % (mod.PROP, traceback.format_exc()))
        return 2
    _MOD, _TIER = mod, tier
    workers = workers or int(os.environ.get("VERIF_WORKERS", "0")) or min(16, os.cpu_count() or 1)
    adhoc_runs = n_runs is not None
    n_runs = n_runs if n_runs is not None else mod.n_runs(tier)
    budget_s = budget_s or mod.budget(tier)
    sweeps = mod.sweep_configs(tier)
    items = [("sweep", i, 0, cfg) for i, cfg in enumerate(sweeps)]
    items += [("search", i, derive(seed, mod.PROP, i), None) for i in range(n_runs)]
    chunk = getattr(mod, "CHUNK", 16)
    chunks = [items[i:i + chunk] for i in range(0, len(items), chunk)]
    ctx = multiprocessing.get_context("fork")
    results = []
    harness = []
    t_prep = time.time() - t0
    truncated = False
    with cf.ProcessPoolExecutor(max_workers=workers, mp_context=ctx) as pool:
        pending = {}
        it = iter(chunks)
        try:
            def submit_more():
                nonlocal truncated
                while len(pending) < workers * 2:
                    if time.time() - t0 > budget_s:
                        truncated = True
                        return
                    c = next(it, None)
                    if c is None:
                        return
                    pending[pool.submit(_work, c)] = c
            submit_more()
            while pending:
                done, _ = cf.wait(list(pending), timeout=getattr(mod, "CHUNK_TIMEOUT", 300) + 60,
                                  return_when=cf.FIRST_COMPLETED)
                if not done:
                    harness.append("no chunk finished within the chunk timeout")
                    break
                for fut in done:
                    pending.pop(fut)
                    try:
                        results.extend(fut.result())
                    except Exception as exc:
                        harness.append("worker failed: %r" % (exc,))
                if harness:
                    break
                submit_more()
        finally:
            if harness:
                for p in list(getattr(pool, "_processes", {}).values()):
                    try:
                        p.kill()
                    except Exception:
                        pass
    wall_runs = time.time() - t0 - t_prep
    # ---- aggregate -------------------------------------------------------------
    agg = {"fired": {}, "probes": {}, "steps": 0, "sim_time": 0.0}
    digests, nontrivial, shapes = set(), set(), set()
    per_kind = {"sweep": 0, "search": 0}
    samples_search, samples_sweep = [], []
    failing = []
    extras = []
    for r in results:
        per_kind[r["kind"]] += 1
        digests.add(r["digest"])
        if r["shape"]:
            shapes.add(r["shape"])
        if r["nontrivial"]:
            nontrivial.add(r["digest"])
        agg["steps"] += r["steps"]
        agg["sim_time"] += r.get("sim_time") or 0.0
        for k, v in (r["fired"] or {}).items():
            agg["fired"][k] = agg["fired"].get(k, 0) + v
        for k, v in (r["probes"] or {}).items():
            agg["probes"][k] = agg["probes"].get(k, 0) + v
        if r.get("sample"):
            bucket = samples_search if r["kind"] == "search" else samples_sweep
            if len(bucket) < 5:
                bucket.append(dict(r["sample"], _from=r["kind"]))
        if r.get("extra"):
            extras.append(r["extra"])
        if r["harness_error"]:
            harness.append("run %s/%s: %s" % (r["kind"], r["idx"], r["harness_error"]))
        elif r["nviol"]:
            failing.append(r)
    # ---- violations: minimise, replay files, known findings -----------------------
    known = load_known(mod.PROP)
    exit_code = 0
    new_violations = 0
    known_hits = {}
    reported = {}
    failing.sort(key=lambda r: (r["kind"] != "sweep", r["idx"]))
    t_min_end = time.time() + getattr(mod, "MINIMISE_TOTAL", 120)
    for r in failing:
        v0 = r["violations"][0]
        cls = mod.violation_class(v0) if hasattr(mod, "violation_class") else v0["inv"]
        key0 = mod.finding_key(r["cfg"], r["violations"]) if hasattr(mod, "finding_key") else {"inv": v0["inv"]}
        sig = json.dumps([cls, key0], sort_keys=True, default=str)
        if reported.get(sig, 0) >= 2 or time.time() > t_min_end and sig in reported:
            reported[sig] = reported.get(sig, 0) + 1
            continue
        reported[sig] = reported.get(sig, 0) + 1
        res0 = {"violations": r["violations"], "decisions": r["decisions"], "digest": r["digest"]}
        try:
            cfg, dec, res, tried = ddmin.minimise(mod, r["cfg"], r["decisions"], res0,
                                                  budget_s=getattr(mod, "MINIMISE_BUDGET", 15))
            path, final = write_replay(mod, cfg, dec, res, r["seed"] or ("sweep%d" % r["idx"]), seed, tried)
        except Exception:
            harness.append("minimisation/replay failed: " + traceback.format_exc()[-2000:])
            continue
        if not final["violations"]:
            harness.append("violation did not reproduce when re-recorded: %r" % (v0,))
            continue
        key = mod.finding_key(cfg, final["violations"]) if hasattr(mod, "finding_key") else {"inv": final["violations"][0]["inv"]}
        hit = match_known(known, key)
        if hit is not None:
            known_hits.setdefault(hit["id"], [hit, 0, path])[1] += 1
        else:
            new_violations += 1
            exit_code = 1
            print("violation: %s" % json.dumps(final["violations"][0], default=str))
            print("  minimised to: %s" % json.dumps(mod.sample_of(cfg, final), default=str))
            print("VIOLATION property=%s replay=%s" % (mod.PROP, path))
    for hid, (hit, n, path) in sorted(known_hits.items()):
        print("KNOWN-FINDING: property=%s %s [%s; example replay %s]" % (mod.PROP, hit["what_fails"], hid, path))
    if harness:
        for h in harness[:10]:
            print("HARNESS-ERROR property=%s %s" % (mod.PROP, h))
        if exit_code == 0:
            exit_code = 2
    # ---- evidence ----------------------------------------------------------------
    wall = time.time() - t0
    n = len(results)
    cov = {
        "evaluations": n,
        "distinct_nontrivial": len(nontrivial),
        "rule": mod.RULE,
        "samples": (samples_search[:4] + samples_sweep[:2]) or [{"note": "no sample captured"}],
        "distinct_digests": len(digests),
        "distinct_schedule_shapes": len(shapes),
        "search_runs": per_kind["search"],
        "sweep_runs": per_kind["sweep"],
        "seeds": per_kind["search"],
        "runs_per_hour": int(n / wall_runs * 3600) if wall_runs > 0 else 0,
        "seeds_per_hour": int(per_kind["search"] / wall_runs * 3600) if wall_runs > 0 else 0,
        "scheduler_steps_total": agg["steps"],
        "simulated_time_s": agg["sim_time"],
        "simulated_time_measure": getattr(mod, "SIM_TIME_MEASURE",
                                          "logical time: scheduler steps (see scheduler_steps_total)"),
        "faults_fired": agg["fired"],
        "reach_probes": agg["probes"],
        "probes_at_zero": [p for p in getattr(mod, "EXPECTED_PROBES", []) if not agg["probes"].get(p)],
        "real_vs_stub": mod.REAL_STUB,
        "workers": workers,
        "truncated_by_wall_budget": truncated,
        "failing_runs": len(failing),
        "new_violations_reported": new_violations,
        "known_findings_hit": {k: v[1] for k, v in known_hits.items()},
        "tree": mod.tree(),
        "prepare_s": round(t_prep, 2),
    }
    if hasattr(mod, "extra_evidence"):
        cov.update(mod.extra_evidence(extras, agg))
    ev = {"property_id": mod.PROP, "tier": tier, "seed": int(seed), "level": "exploration",
          "coverage": cov, "assumptions": mod.ASSUMPTIONS, "wall_s": round(wall, 2),
          "violations": new_violations}
    if exit_code != 2:
        # ad hoc runs (--runs N, a scratch tree) do not replace the evidence
        # of the registered commands
        adhoc = adhoc_runs or os.path.realpath(REPO) != "/repo"
        edir = os.path.join(VERIF, "out", "evidence_adhoc") if adhoc else os.path.join(VERIF, "evidence")
        os.makedirs(edir, exist_ok=True)
        with open(os.path.join(edir, mod.PROP + ".json"), "w") as fid:
            json.dump(ev, fid, indent=1, default=str)
        if tier == "thorough" and not adhoc:
            # the last thorough run is also kept beside the per-property file, which the
            # next quick run replaces
            os.makedirs(os.path.join(edir, "thorough"), exist_ok=True)
            with open(os.path.join(edir, "thorough", mod.PROP + ".json"), "w") as fid:
                json.dump(ev, fid, indent=1, default=str)
    if not quiet:
        print("%s tier=%s seed=%s runs=%d (search %d, sweep %d) distinct=%d nontrivial=%d shapes=%d "
              "steps=%d wall=%.1fs fired=%s" % (mod.PROP, tier, seed, n, per_kind["search"],
                                               per_kind["sweep"], len(digests), len(nontrivial),
                                               len(shapes), agg["steps"], wall, json.dumps(agg["fired"], sort_keys=True)))
        print("probes: %s" % json.dumps(agg["probes"], sort_keys=True))
        if exit_code == 0:
            print("%s: property held on everything explored" % mod.PROP)
    return exit_code
