"""Shared helpers: which tree is under test, scratch space, canonical paths."""
import atexit
import hashlib
import os
import shutil
import subprocess
import sys
import tempfile

VERIF = os.path.dirname(os.path.dirname(os.path.abspath(__file__)))
REPO = os.path.realpath(os.environ.get("VERIF_REPO", "/repo"))

_SCRATCH = None
_OWNER = [None]


def _reap_stale(base):
    """Remove scratch directories whose owning process is gone (a check that
    was killed by its wall timeout cannot clean up after itself)."""
    try:
        names = os.listdir(base)
    except OSError:
        return
    for name in names:
        if not name.startswith("verif-sasmodels-"):
            continue
        parts = name.split("-")
        try:
            pid = int(parts[2])
            os.kill(pid, 0)
        except (IndexError, ValueError):
            pid = None
        except ProcessLookupError:
            shutil.rmtree(os.path.join(base, name), ignore_errors=True)
        except PermissionError:
            pass


def scratch_root():
    """One directory per check invocation, on tmpfs when there is one,
    removed at exit.  Nothing a later command needs is kept here."""
    global _SCRATCH
    if _SCRATCH is None:
        base = "/dev/shm" if os.path.isdir("/dev/shm") and os.access("/dev/shm", os.W_OK) \
            else os.environ.get("TMPDIR", "/tmp")
        _reap_stale(base)
        _SCRATCH = tempfile.mkdtemp(prefix="verif-sasmodels-%d-" % os.getpid(), dir=base)
        owner = os.getpid()
        _OWNER[0] = owner

        def _cleanup(path=_SCRATCH, owner=owner):
            if os.getpid() == owner:
                shutil.rmtree(path, ignore_errors=True)
        atexit.register(_cleanup)
    return _SCRATCH


def cleanup():
    """Remove this invocation's scratch directory (main exits with os._exit)."""
    global _SCRATCH
    if _SCRATCH is not None and os.getpid() == _OWNER[0]:
        shutil.rmtree(_SCRATCH, ignore_errors=True)
        _SCRATCH = None


def ensure_repo_on_path():
    """sasmodels must come from VERIF_REPO (also how scratch mutants are
    checked without touching /repo)."""
    if sys.path[0] != REPO:
        sys.path.insert(0, REPO)
    import sasmodels
    got = os.path.realpath(os.path.dirname(sasmodels.__file__))
    want = os.path.join(REPO, "sasmodels")
    if got != want:
        raise RuntimeError("sasmodels imported from %s, expected %s" % (got, want))
    return sasmodels


def tree_id(files):
    """git HEAD of the tree under test and a hash of the given source files
    (trace labels contain line numbers, so a replay belongs to one tree)."""
    try:
        head = subprocess.check_output(
            ["git", "-C", REPO, "rev-parse", "HEAD"],
            stderr=subprocess.DEVNULL).decode().strip()
    except Exception:
        head = "unknown"
    h = hashlib.sha256()
    for f in sorted(files):
        h.update(os.path.basename(f).encode())
        with open(f, "rb") as fid:
            h.update(fid.read())
    return {"head": head, "traced_sha": h.hexdigest()[:16]}


def canon(path, roots):
    """Replace scratch roots in a path so digests do not depend on them."""
    if not isinstance(path, str):
        return path
    for root, tag in roots:
        if root in path:
            path = path.replace(root, tag)
    return path
