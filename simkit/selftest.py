"""Self-tests of the machinery itself.

  ./run selftest determinism C18 [--runs N]
      N search seeds + the sweep family, each executed (a) on 16 workers,
      (b) again on 16 workers, (c) on 3 workers, (d) in a fresh interpreter
      under a different PYTHONHASHSEED; the per-run digests must be identical.
  ./run selftest digests C18 [--runs N]     (helper: prints one line of JSON)
"""
import concurrent.futures as cf
import importlib
import json
import multiprocessing
import os
import subprocess
import sys

from simkit import driver
from simkit.prng import derive


def _digests(mod, tier, seed, n, workers):
    driver._MOD, driver._TIER = mod, tier
    sweeps = mod.sweep_configs(tier)
    items = [("sweep", i, 0, cfg) for i, cfg in enumerate(sweeps[:n])]
    items += [("search", i, derive(seed, mod.PROP, i), None) for i in range(n)]
    chunk = 8
    chunks = [items[i:i + chunk] for i in range(0, len(items), chunk)]
    ctx = multiprocessing.get_context("fork")
    out = {}
    with cf.ProcessPoolExecutor(max_workers=workers, mp_context=ctx) as pool:
        for res in pool.map(driver._work, chunks):
            for r in res:
                out["%s-%d" % (r["kind"], r["idx"])] = (r["digest"], r["nviol"], r["harness_error"])
    return out


def main(rest, args):
    from simkit.main import CHECKS
    what = rest[0]
    prop = rest[1]
    mod = importlib.import_module(CHECKS[prop])
    n = args.runs or 200
    seed = int(os.environ.get("VERIF_SEED", "0") or 0)
    tier = args.tier
    mod.prepare(tier)
    if what == "digests":
        d = _digests(mod, tier, seed, n, args.workers or 16)
        print("DIGESTS " + json.dumps(d, sort_keys=True))
        return 0
    if what == "determinism":
        a = _digests(mod, tier, seed, n, 16)
        b = _digests(mod, tier, seed, n, 16)
        c = _digests(mod, tier, seed, n, 3)
        env = dict(os.environ, PYTHONHASHSEED="7", VERIF_KEEP_HASHSEED="1")
        outp = subprocess.check_output(
            [sys.executable, "-B", os.path.join(os.path.dirname(__file__), "main.py"),
             "selftest", "digests", prop, "--runs", str(n), "--tier", tier, "--workers", "8"], env=env)
        line = [l for l in outp.decode().splitlines() if l.startswith("DIGESTS ")][0]
        d = {k: tuple(v) for k, v in json.loads(line[8:]).items()}
        bad = 0
        for name, other in (("second run, 16 workers", b), ("3 workers", c),
                            ("fresh interpreter PYTHONHASHSEED=7, 8 workers", d)):
            diff = [k for k in a if tuple(a[k]) != tuple(other.get(k, ()))]
            print("%-50s %d of %d runs differ %s" % (name, len(diff), len(a), diff[:5]))
            bad += len(diff)
        herr = [k for k, v in a.items() if v[2]]
        print("runs with harness errors: %d; with violations: %d" %
              (len(herr), sum(1 for v in a.values() if v[1])))
        return 1 if bad or herr else 0
    print("unknown selftest", what)
    return 2
