"""Self-tests of the machinery itself.

  ./run selftest determinism C18 [--runs N]
      N search seeds + the sweep family, each executed (a) on 16 workers,
      (b) again on 16 workers, (c) on 3 workers, (d) in a fresh interpreter
      under a different PYTHONHASHSEED; the per-run digests must be identical.
  ./run selftest digests C18 [--runs N]     (helper: prints one line of JSON)
"""
import concurrent.futures as cf
import importlib
import json
import multiprocessing
import os
import subprocess
import sys

from simkit import driver
from simkit.prng import derive


def _digests(mod, tier, seed, n, workers):
    driver._MOD, driver._TIER = mod, tier
    sweeps = mod.sweep_configs(tier)
    items = [("sweep", i, 0, cfg) for i, cfg in enumerate(sweeps[:n])]
    items += [("search", i, derive(seed, mod.PROP, i), None) for i in range(n)]
    chunk = 8
    chunks = [items[i:i + chunk] for i in range(0, len(items), chunk)]
    ctx = multiprocessing.get_context("fork")
    out = {}
    with cf.ProcessPoolExecutor(max_workers=workers, mp_context=ctx) as pool:
        for res in pool.map(driver._work, chunks):
            for r in res:
                out["%s-%d" % (r["kind"], r["idx"])] = (r["digest"], r["nviol"], r["harness_error"])
    return out


def main(rest, args):
    from simkit.main import CHECKS
    what = rest[0]
    if what == "engine":
        return engine_selftest()
    prop = rest[1]
    mod = importlib.import_module(CHECKS[prop])
    n = args.runs or 200
    seed = int(os.environ.get("VERIF_SEED", "0") or 0)
    tier = args.tier
    mod.prepare(tier)
    if what == "digests":
        d = _digests(mod, tier, seed, n, args.workers or 16)
        print("DIGESTS " + json.dumps(d, sort_keys=True))
        return 0
    if what == "determinism":
        a = _digests(mod, tier, seed, n, 16)
        b = _digests(mod, tier, seed, n, 16)
        c = _digests(mod, tier, seed, n, 3)
        env = dict(os.environ, PYTHONHASHSEED="7", VERIF_KEEP_HASHSEED="1")
        outp = subprocess.check_output(
            [sys.executable, "-B", os.path.join(os.path.dirname(__file__), "main.py"),
             "selftest", "digests", prop, "--runs", str(n), "--tier", tier, "--workers", "8"], env=env)
        line = [l for l in outp.decode().splitlines() if l.startswith("DIGESTS ")][0]
        d = {k: tuple(v) for k, v in json.loads(line[8:]).items()}
        bad = 0
        for name, other in (("second run, 16 workers", b), ("3 workers", c),
                            ("fresh interpreter PYTHONHASHSEED=7, 8 workers", d)):
            diff = [k for k in a if tuple(a[k]) != tuple(other.get(k, ()))]
            print("%-50s %d of %d runs differ %s" % (name, len(diff), len(a), diff[:5]))
            bad += len(diff)
        herr = [k for k, v in a.items() if v[2]]
        print("runs with harness errors: %d; with violations: %d" %
              (len(herr), sum(1 for v in a.values() if v[1])))
        return 1 if bad or herr else 0
    print("unknown selftest", what)
    return 2


# ---------------------------------------------------------------------------
# Engine self-test on toys with known answers:  ./run selftest engine X
# ---------------------------------------------------------------------------

def engine_selftest():
    """The scheduler on three toys whose answers are known:
    1. lost update: two actors do read-yield-write on a counter.  Some
       schedule loses an update; seeded search must find one, the replay of
       its decision list must reproduce it exactly, and with a SimLock around
       the critical section no schedule may lose one.
    2. kill = nothing runs again: an actor killed inside try/finally must not
       execute its finally block before the verdict (only at teardown).
    3. a killed lock holder leaves the others blocked: reported as deadlock,
       not as a hang of the simulator."""
    import random
    from simkit import baton
    ok = True

    def lost_update(seed, locked, decisions=None):
        box = {"n": 0}
        chooser = baton.ReplayChooser(decisions) if decisions is not None else \
            baton.UniformChooser(random.Random(seed))
        s = baton.Scheduler(chooser, 10000)
        lock = baton.SimLock(s, "L")

        def body(a):
            for _ in range(3):
                if locked:
                    lock.acquire()
                v = box["n"]
                s.yield_point("read")
                box["n"] = v + 1
                s.yield_point("write")
                if locked:
                    lock.release()
        for name in ("A", "B"):
            s.spawn(name, body, kind="thread")
        s.run()
        d, dec, reason = s.digest({}), list(s.decisions), s.stop_reason
        s.teardown()
        return box["n"], d, dec, reason

    found = None
    for seed in range(200):
        n, d, dec, reason = lost_update(seed, locked=False)
        if n != 6:
            found = (seed, n, d, dec)
            break
    if not found:
        print("engine: lost update NOT found in 200 seeds")
        ok = False
    else:
        n2, d2, _, _ = lost_update(0, locked=False, decisions=found[3])
        print("engine: lost update found at seed %d (counter %d); replay counter %d digest %s"
              % (found[0], found[1], n2, "identical" if d2 == found[2] else "DIFFERENT"))
        ok &= (n2 == found[1] and d2 == found[2])
    bad = [seed for seed in range(200) if lost_update(seed, locked=True)[0] != 6]
    print("engine: with the simulated lock, %d of 200 seeds lose an update" % len(bad))
    ok &= not bad

    # 2. kill semantics
    trail = []
    s = baton.Scheduler(baton.ReplayChooser(["V", "V", "W", "W", "W"]), 1000)

    def victim(a):
        try:
            trail.append("in")
            s.yield_point("p1")
            s.yield_point("p2")
            trail.append("after")
        finally:
            trail.append("finally")

    def witness(a):
        s.yield_point("w1")
        s.kill(s.by_name["V"], False)
        s.yield_point("w2")
        trail.append("witness-done")
    s.spawn("V", victim, kind="thread")
    s.spawn("W", witness, kind="thread")
    s.run()
    before = list(trail)
    s.teardown()
    print("engine: kill: trail before teardown %r, after %r" % (before, trail))
    ok &= ("finally" not in before and "after" not in trail and "witness-done" in before)

    # 3. killed lock holder
    s = baton.Scheduler(baton.ReplayChooser(["H", "H", "K", "O", "O", "O"]), 1000)
    lock = baton.SimLock(s, "L")

    def holder(a):
        lock.acquire()
        s.yield_point("holding")
        lock.release()

    def killer(a):
        s.kill(s.by_name["H"], False)

    def other(a):
        lock.acquire()
        lock.release()
    for nm, fn in (("H", holder), ("K", killer), ("O", other)):
        s.spawn(nm, fn, kind="thread")
    s.run()
    reason = s.stop_reason
    s.teardown()
    print("engine: killed lock holder -> stop reason %r" % reason)
    ok &= (reason == "deadlock")
    print("engine self-test", "passed" if ok else "FAILED")
    return 0 if ok else 1
