"""./run <check> [--tier quick|thorough] [--replay FILE] [--runs N]"""
import argparse
import importlib
import os
import sys

sys.path.insert(0, os.path.dirname(os.path.dirname(os.path.abspath(__file__))))
sys.dont_write_bytecode = True

CHECKS = {"C18": "checks.c18_build", "C17": "checks.c17_cache",
          "C11": "checks.c11_history", "C01": "checks.c01_chunks"}


def main(argv):
    if os.environ.get("PYTHONHASHSEED") != "0" and not os.environ.get("VERIF_KEEP_HASHSEED"):
        os.environ["PYTHONHASHSEED"] = "0"
        os.execv(sys.executable, [sys.executable, "-B"] + sys.argv)
    ap = argparse.ArgumentParser()
    ap.add_argument("what")
    ap.add_argument("rest", nargs="*")
    ap.add_argument("--tier", default=os.environ.get("VERIF_TIER", "quick"))
    ap.add_argument("--replay")
    ap.add_argument("--runs", type=int)
    ap.add_argument("--workers", type=int)
    ap.add_argument("--budget", type=float)
    args = ap.parse_args(argv)
    from simkit.common import ensure_repo_on_path
    if args.what == "setup":
        from simkit import setup
        return setup.main()
    ensure_repo_on_path()
    if args.what == "selftest":
        from simkit import selftest
        return selftest.main(args.rest, args)
    if args.what not in CHECKS:
        print("unknown check %r" % args.what)
        return 2
    mod = importlib.import_module(CHECKS[args.what])
    from simkit import driver
    seed = int(os.environ.get("VERIF_SEED", "0") or 0)
    if args.replay:
        return driver.replay(mod, args.replay, args.tier)
    return driver.run_check(mod, args.tier, seed, n_runs=args.runs, workers=args.workers,
                            budget_s=args.budget)


if __name__ == "__main__":
    try:
        rc = main(sys.argv[1:])
    finally:
        from simkit import common
        common.cleanup()
    sys.stdout.flush()
    os._exit(rc if isinstance(rc, int) else 0)
