"""C01 - the dispersity average as a resumable loop under invocation schedules.

The compiled kernel is driven with successive (pd_start, pd_stop) windows and
carries its accumulators between invocations in the result buffer.  The
simulator owns that invocation schedule (single call, the repo's own
step-100 driver, size-1 windows, cuts on and off every stride boundary,
random partitions, windows beyond the end, restart from zero mid-way) and
checks, after every invocation, the running totals against a reference
prefix-sum model built from one-point evaluations; at the end all schedules
must leave bit-identical buffers and the public call_kernel / call_Fq values
must equal scale*sum(w F^2)/sum(w V) + background from the reference sums.

Models, parameter sets and distributions are workload variety (sampled, not
decided).  See DESIGN.md section 7.
"""
import copy
import hashlib
import itertools
import json
import os
import random

import numpy as np

from simkit.baton import HarnessError
from simkit import ccmemo
from simkit.ccmemo import MemoSubprocess
from simkit.common import REPO, scratch_root, tree_id
from simkit.prng import Streams

PROP = "C01"
G = {}

QUICK_MODELS = ["sphere", "cylinder", "ellipsoid", "parallelepiped", "capped_cylinder",
                "core_multi_shell", "vesicle", "lamellar", "fractal_core_shell", "hollow_cylinder", "onion"]
VERY_SLOW_MODELS = {"superball", "pringle", "fcc_paracrystal", "bcc_paracrystal", "sc_paracrystal"}
DISTS = ["gaussian", "rectangle", "lognormal", "schulz", "uniform", "boltzmann"]
QSETS = {
    "q3": [[0.01, 0.1, 0.3]],
    "q6": [[0.002, 0.008, 0.03, 0.09, 0.2, 0.45]],
    "xy4": [[0.05, 0.1, -0.05, 0.2], [0.0, 0.05, 0.1, -0.1]],
    "xy6": [[-0.1, 0.02, 0.15, 0.3, -0.2, 0.07], [-0.08, 0.01, 0.12, -0.3, 0.2, 0.0]],
}


# ----------------------------------------------------------------------- setup

def prepare(tier):
    import warnings
    warnings.filterwarnings("ignore")
    import sasmodels  # noqa: F401
    from sasmodels import core, details, direct_model, generate, kernel, kerneldll, weights  # noqa: F401
    root = scratch_root()
    G["root"] = root
    G["memo"] = os.path.join(root, "ccmemo")
    files = [os.path.realpath(m.__file__) for m in (details, direct_model, kernel, kerneldll, generate)]
    files.append(os.path.join(REPO, "sasmodels", "kernel_iq.c"))
    G["tree"] = tree_id(files)
    G["models"] = {}
    G["all_models"] = [n for n in core.list_models() if not callable(core.load_model_info(n).Iq)]
    G["pid"] = None


def tree():
    return G["tree"]


def get_model(name, dtype):
    from sasmodels import core, kerneldll
    if G["pid"] != os.getpid():
        G["pid"] = os.getpid()
        G["models"] = {}
        kerneldll.SAS_DLL_PATH = os.path.join(G["root"], "c01cache-%d" % os.getpid())
        ccmemo.install(kerneldll, MemoSubprocess(G["memo"]))
    key = (name, dtype)
    if key not in G["models"]:
        G["models"][key] = core.load_model(name, dtype=dtype, platform="dll")
    return G["models"][key]


# ------------------------------------------------------------- raw invocation

def raw_call(kernel, fn, nq, start, stop, details, values, result, cutoff, mode):
    fn(nq, start, stop, details.buffer.ctypes.data, values.ctypes.data,
       kernel.q_input.q.ctypes.data, result.ctypes.data, _as_dtype(kernel)(cutoff), mode)


def _as_dtype(kernel):
    conv = getattr(kernel, "_as_dtype", None)
    if conv is None:
        conv = np.float32 if np.dtype(kernel.dtype) == np.float32 else np.float64
    return conv


_DECL = {}


def _declaration_mismatch(info):
    """None, or (name, what) for the first call parameter whose limits / kind /
    dispersibility differ from the parameter the model file declares."""
    import re
    if info.id in _DECL:
        return _DECL[info.id]
    t = info.parameters
    out = None
    declared = list(t.kernel_parameters)
    # first the parsed declaration against the text of the model file itself
    # (name, units, default, [lower, upper], kind, description)
    try:
        import importlib
        raw = list(getattr(importlib.import_module("sasmodels.models." + info.id), "parameters"))
    except Exception:
        raw = []
    for entry in raw:
        try:
            rname, _, rdefault, rlimits, rtype = entry[:5]
        except (TypeError, ValueError):
            continue
        rid = rname.split("[")[0]
        d = next((k for k in declared if k.id == rid), None)
        if d is None:
            out = (rname, "declared in the model file but absent from the parameter table")
            break
        if isinstance(rlimits, (list, tuple)) and len(rlimits) == 2 and \
                all(isinstance(x, (int, float)) for x in rlimits):
            if tuple(float(x) for x in d.limits) != tuple(float(x) for x in rlimits):
                out = (rname, "limits are %r, the model file says %r" % (tuple(d.limits), tuple(rlimits)))
                break
        if rtype in ("volume", "orientation", "sld", "") and not getattr(d, "is_control", False):
            want_pd, want_rel = rtype in ("volume", "orientation"), rtype == "volume"
            if d.type != rtype or bool(d.polydisperse) != want_pd or bool(d.relative_pd) != want_rel:
                out = (rname, "kind/dispersibility (%r, polydisperse=%r, relative=%r) does not follow from the "
                              "declared kind %r" % (d.type, d.polydisperse, d.relative_pd, rtype))
                break
        if isinstance(rdefault, (int, float)) and getattr(d, "length", 1) == 1 and float(d.default) != float(rdefault):
            out = (rname, "default is %r, the model file says %r" % (d.default, rdefault))
            break
    if out:
        _DECL[info.id] = out
        return out
    for p in t.call_parameters[2:2 + t.npars]:
        d = next((k for k in declared if k.id == p.id or
                  (getattr(k, "length", 1) > 1 and re.fullmatch(re.escape(k.id) + r"\d+", p.id))), None)
        if d is None:
            continue          # (parameters generated by the library itself, e.g. for composite models)
        for attr in ("limits", "type", "polydisperse", "relative_pd"):
            a, b = getattr(p, attr, None), getattr(d, attr, None)
            if attr == "limits":
                a, b = tuple(float(x) for x in a), tuple(float(x) for x in b)
            if a != b:
                out = (p.name, "%s is %r, the model declares %r" % (attr, a, b))
                break
        if out:
            break
    _DECL[info.id] = out
    return out


def dispersible(partable, two_d):
    """Names of the parameters a request may disperse, from the model's declared parameter
    types (not from the tables the implementation derives for itself): every parameter
    declared polydisperse - sizes and, for 2-D data, orientation angles - under the name
    requests use (vector parameters element by element)."""
    return set(p.name for p in partable.call_parameters[2:2 + partable.npars]
               if p.polydisperse and p.type != "magnetic" and (two_d or p.type != "orientation"))


_JITTER = {}


def _kernel_applies_jitter(info):
    """True when the generated 2-D kernel rotates the particle itself (Iqac / Iqabc
    models) and therefore weights a point by the equirectangular projection factor."""
    from sasmodels import generate
    if info.id not in _JITTER:
        src = generate.make_source(info)["dll"]
        _JITTER[info.id] = (generate.PROJECTION == 1 and
                            ("#define CALL_IQ_AC(" in src or "#define CALL_IQ_ABC(" in src))
    return _JITTER[info.id]


def _eval_valid(info, point):
    """The model's validity predicate (a C expression over parameter names) evaluated in
    Python; None when it cannot be evaluated here."""
    import re
    expr = getattr(info, "valid", "") or ""
    if not expr.strip():
        return True
    py = re.sub(r"!(?!=)", " not ", expr.replace("&&", " and ").replace("||", " or "))
    try:
        return bool(eval(py, {"__builtins__": {}}, dict(point)))     # noqa: S307 (model file text)
    except Exception:
        return None


def agree(got, want, tol):
    """|got - want| <= tol, NaN-aware: a model that returns NaN or inf at a
    mesh point poisons both sides identically and that is agreement."""
    got = np.asarray(got)
    want = np.asarray(want)
    with np.errstate(all="ignore"):
        ok = np.abs(got - want) <= tol
    both_nan = np.isnan(got.astype("d")) & np.isnan(want.astype("d"))
    same_inf = np.isinf(got.astype("d")) & (got.astype("d") == want.astype("d"))
    tol_nan = np.isnan(np.asarray(tol, dtype="d")) & (np.isnan(got.astype("d")) == np.isnan(want.astype("d")))
    return ok | both_nan | same_inf | tol_nan


def totals(result, base, n):
    """(sum wF^2 per q [, sum wF per q], sum w, sum w*Vform, sum w*Vshell, sum w*R)."""
    return np.array(result[:base + 4], dtype=np.longdouble)


# ------------------------------------------------------------------- schedules

def make_schedules(rng, n, strides, tier):
    """Seeded partitions of [0, n).  Each schedule is a list of (start, stop)
    windows; 'restart' entries begin again at 0 on the same buffer."""
    out = [("single", [(0, n)])]
    if n <= 600:
        out.append(("ones", [(i, i + 1) for i in range(n)]))
    for s in sorted(set(int(x) for x in strides if 1 < x < n)):
        # one cut exactly on a stride boundary, one just off it
        k = rng.randrange(1, max(2, n // s)) * s
        if 0 < k < n:
            out.append(("cut_on_stride_%d" % s, [(0, k), (k, n)]))
        k2 = min(n - 1, k + rng.choice([1, s - 1 if s > 2 else 1]))
        if 0 < k2 < n:
            out.append(("cut_off_stride_%d" % s, [(0, k2), (k2, n)]))
        out.append(("every_stride_%d" % s, [(i, min(i + s, n)) for i in range(0, n, s)]))
    for j in range(3 if tier == "quick" else 6):
        cuts = sorted(set(rng.randrange(1, n) for _ in range(rng.randint(1, min(12, max(1, n - 1)))))) if n > 1 else []
        b = [0] + cuts + [n]
        out.append(("random_%d" % j, [(b[i], b[i + 1]) for i in range(len(b) - 1)]))
    prime = rng.choice([7, 13, 31, 97, 101])
    out.append(("prime_%d" % prime, [(i, min(i + prime, n)) for i in range(0, n, prime)]))
    if n > 2:
        # abandon after the first windows, begin again at 0 on the same buffer
        k = rng.randrange(1, n)
        j = rng.randrange(1, n - 1)
        j2 = rng.randrange(j + 1, n + 1)
        out.append(("restart", [(0, j), (j, j2), (0, k), (k, n)]))
    return out


# --------------------------------------------------------------- one workload

def run_one(cfg, decisions=None, keep_events=False):
    from sasmodels import details as sdetails
    from sasmodels import direct_model, weights
    events, violations, probes, fired = [], [], {}, {}
    harness_error = None
    nontrivial = False

    def probe(name, k=1):
        probes[name] = probes.get(name, 0) + k

    def fail(inv, detail, **kw):
        v = {"inv": inv, "detail": detail, "model": cfg["model"]}
        v.update(kw)
        violations.append(v)

    try:
        # other requests this process answered before (another model that shares a parameter
        # name, say): evaluated through the public interface, not judged themselves
        for pre in cfg.get("prelude") or []:
            pm = get_model(pre["model"], pre.get("dtype", cfg["dtype"]))
            pk = pm.make_kernel([np.array(v, "d") for v in QSETS[pre.get("q", cfg["q"])]])
            with np.errstate(all="ignore"):
                direct_model.call_kernel(pk, dict(pre["pars"]), cutoff=float(pre.get("cutoff", 0.0)))
            pk.release()
            probe("request_after_other_model_in_same_process")
        model = get_model(cfg["model"], cfg["dtype"])
        info = model.info
        # the parameter table requests are matched against must agree with the model's
        # declaration (limits, kind, dispersibility), element by element for vector parameters
        bad_decl = _declaration_mismatch(info)
        if bad_decl:
            fail("A0", "call parameter %s: %s" % bad_decl, cause="parameter_table")
            return _result(cfg, events, violations, probes, fired, None, False, keep_events)
        qv = [np.array(v, "d") for v in QSETS[cfg["q"]]]
        kernel = model.make_kernel(qv)
        nq = kernel.q_input.nq
        two_d = len(qv) == 2
        pars = dict(cfg["pars"])
        mode = int(cfg.get("mode", 0))
        cutoff = float(cfg["cutoff"])
        partable = info.parameters
        npars, nvalues, max_pd = partable.npars, partable.nvalues, partable.max_pd
        cpars = partable.call_parameters

        # ---- the request as the public interface sees it ------------------------
        try:
            with np.errstate(all="ignore"):
                mesh = direct_model.get_mesh(info, pars, dim=kernel.dim)
            if not all(np.all(np.isfinite(d)) and np.all(np.isfinite(wt)) and np.all(np.asarray(wt) >= 0)
                       for (_, d, wt) in mesh):
                raise ValueError("non-finite distribution")
        except (ZeroDivisionError, ValueError, FloatingPointError, OverflowError) as exc:
            # the generator produced a parameter set the distribution code
            # itself rejects or cannot represent: not a C01 workload
            probe("illegal_workload_skipped")
            return _result(cfg, events, violations, probes, fired, None, False, keep_events)
        # the mesh rebuilt independently of get_mesh/_pop_par_weights from the
        # request and the distribution functions (weights.get_weights is C02's
        # subject and trusted here): which parameters may be dispersed in this
        # dimension, defaults, nsigma, distribution type, limits, relative width
        active = dispersible(partable, two_d)
        for j, prm in enumerate(cpars):
            value = float(pars.get(prm.name, prm.default))
            n_, w_ = pars.get(prm.name + "_pd_n", 0), pars.get(prm.name + "_pd", 0.0)
            if prm.polydisperse and prm.name in active and n_ and w_:
                with np.errstate(all="ignore"):
                    xs, ws = weights.get_weights(pars.get(prm.name + "_pd_type", "gaussian"), n_, w_,
                                                 pars.get(prm.name + "_pd_nsigma", 3.0), value, prm.limits,
                                                 prm.relative_pd)
                    # the limits clause on its own: what is left is exactly the part of the
                    # *unlimited* distribution that lies inside [lower, upper], both ends
                    # included, renormalised
                    xu, wu = weights.get_weights(pars.get(prm.name + "_pd_type", "gaussian"), n_, w_,
                                                 pars.get(prm.name + "_pd_nsigma", 3.0), value,
                                                 (-np.inf, np.inf), prm.relative_pd)
                xu, wu = np.asarray(xu, "d"), np.asarray(wu, "d")
                if np.all(np.isfinite(xu)) and np.all(np.isfinite(wu)):
                    inside = (xu >= float(prm.limits[0])) & (xu <= float(prm.limits[1]))
                    same = np.array_equal(np.asarray(xs, "d"), xu[inside])
                    if same and inside.any() and np.sum(wu[inside]) > 0:
                        same = np.allclose(np.asarray(ws, "d"), wu[inside] / np.sum(wu[inside]), rtol=1e-12, atol=0)
                    if not same:
                        fail("A0", "parameter %s: %d of the %d distribution points lie inside the limits %r, the "
                             "truncated distribution has %d points (or other weights)"
                             % (prm.name, int(inside.sum()), len(xu), tuple(prm.limits), len(xs)), cause="truncation")
                        return _result(cfg, events, violations, probes, fired, None, False, keep_events)
                    probe("truncation_checked_against_unlimited_distribution")
                    if inside.any() and (np.any(xu[inside] == float(prm.limits[1])) or np.any(xu[inside] == float(prm.limits[0]))):
                        probe("distribution_point_exactly_on_a_limit")
            elif prm.polydisperse:
                xs, ws = [value if prm.relative_pd else 0.0], [1.0]
            else:
                xs, ws = [value], [1.0]
            gv, gx, gw = mesh[j]
            if not (float(gv) == value and np.array_equal(np.asarray(gx, "d"), np.asarray(xs, "d"))
                    and np.array_equal(np.asarray(gw, "d"), np.asarray(ws, "d"))):
                fail("A0", "parameter %s: the mesh handed to the kernel (value %r, %d points) differs from the "
                     "distribution the request describes (value %r, %d points)"
                     % (prm.name, float(gv), len(gx), value, len(xs)), cause="mesh_extraction")
                return _result(cfg, events, violations, probes, fired, None, False, keep_events)
        lengths_all = [len(w) for (_, _, w) in mesh[2:npars + 2]]
        n_active = sum(1 for n in lengths_all if n > 1)
        requested = [p.name for p in cpars[2:npars + 2] if pars.get(p.name + "_pd_n", 0) and pars.get(p.name + "_pd", 0)
                     and p.name in active]
        events.append(["request", cfg["model"], cfg["dtype"], cfg["q"], cutoff, mode, lengths_all])
        if n_active > max_pd:
            fired["too_many_dispersed"] = 1
            for name, fn in (("call_kernel", direct_model.call_kernel), ("call_Fq", direct_model.call_Fq)):
                try:
                    fn(kernel, dict(pars), cutoff=cutoff)
                    fail("A3", "%s accepted %d simultaneously dispersed parameters (model supports %d) "
                         "instead of refusing" % (name, n_active, max_pd), cause="too_many")
                except ValueError:
                    probe("refused_too_many")
            return _result(cfg, events, violations, probes, fired, None, False, keep_events)
        call_details, values, is_magnetic = sdetails.make_kernel_args(kernel, mesh)
        fn = kernel.kernel[1 if is_magnetic else 0]
        base = 2 * nq if (info.have_Fq and not two_d) else nq
        n_impl = int(call_details.num_eval)
        slot_par = [int(x) for x in call_details.pd_par[:max_pd]]
        slot_len = [int(x) for x in call_details.pd_length[:max_pd]]
        slot_stride = [int(x) for x in call_details.pd_stride[:max_pd]]

        # ---- reference model: the full mesh from the per-parameter distributions ----
        # independent of make_details: every parameter contributes all of its points
        truncated = [cpars[2 + j].name for j, n in enumerate(lengths_all)
                     if cpars[2 + j].name in requested and n <= 1]
        for nm in truncated:
            n = lengths_all[[p.name for p in cpars[2:npars + 2]].index(nm)]
            fired["truncated_to_%d_points" % n] = fired.get("truncated_to_%d_points" % n, 0) + 1
        if any(lengths_all[j] == 2 and cpars[2 + j].name in requested and
               pars.get(cpars[2 + j].name + "_pd_n", 0) > 2 for j in range(npars)):
            fired["truncated_to_2_points"] = 1
        n_ref = int(np.prod([n for n in lengths_all])) if lengths_all else 1
        looped = [j for j, n in enumerate(lengths_all) if n > 1]
        # loop order: decreasing length, innermost first (ties: the implementation's order)
        if n_ref > 0:
            in_slots = [j for j in slot_par if j in looped]
            if sorted(in_slots) != sorted(looped):
                fail("A0", "dispersed parameters %r are not all in the loop slots %r" % (looped, slot_par),
                     cause="layout")
            order = sorted(in_slots, key=lambda j: slot_par.index(j))
            lens = [lengths_all[j] for j in order]
            if lens != sorted(lens, reverse=True):
                probe("slots_not_sorted_by_length")
        else:
            order, lens = [], []
        strides = [int(np.prod(lens[:i])) for i in range(len(lens))]
        n_loop = int(np.prod(lens)) if lens else 1

        # one-point evaluation template
        contrib = None
        ambiguous = False
        if n_ref > 0 and not violations:
            # Only parameters that sit in a loop slot have their weight applied,
            # and a one-point mesh gives no parameter a guaranteed slot.  So the
            # combined weight W_k (our own product) rides on one parameter that
            # is duplicated into two identical half-weight points (length 2 =>
            # sorted first => always in a slot); dispersed orientation
            # parameters are duplicated too because their jitter is only read
            # from a slot.  Identical points with half weights sum exactly.
            tmesh = list(mesh[:2])
            dup = []
            carrier = order[0] if order else None
            for j in range(npars):
                value, disp, wt = mesh[2 + j]
                p = cpars[2 + j]
                if j == carrier or (p.type == "orientation" and len(wt) > 1):
                    tmesh.append((value, np.array([disp[0], disp[0]]), np.array([0.5, 0.5])))
                    dup.append(j)
                else:
                    tmesh.append((value, np.array([disp[0]]), np.array([1.0])))
            tmesh.extend(mesh[2 + npars:])
            tdet, tval, tmag = sdetails.make_kernel_args(kernel, tmesh)
            if tmag != is_magnetic:
                raise HarnessError("magnetic flag differs in the one-point template")
            toff = [int(x) for x in tdet.offset]
            tnw = int(tdet.num_weights)
            tn = int(tdet.num_eval)
            if dup and sorted(int(x) for x in tdet.pd_par[:len(dup)]) != sorted(dup):
                raise HarnessError("duplicated parameters did not get loop slots in the one-point template")
            buf = np.empty(base + 4 + nq, kernel.dtype)
            contrib = np.zeros((n_loop, base + 4), np.longdouble)
            wprod = np.zeros(n_loop)
            dth = np.zeros(n_loop)                 # theta jitter of the point, degrees
            pvalid = np.ones(n_loop, bool)         # the model's own validity predicate, evaluated here
            valid_known = True
            tv = tval.copy()
            asd = kernel.dtype.type
            for step in range(n_loop):
                w = 1.0
                point = {}
                for j in range(npars):
                    value, disp, wt = mesh[2 + j]
                    if j in order:
                        l = order.index(j)
                        i = (step // strides[l]) % lens[l]
                    else:
                        i = 0
                    x = disp[i]
                    w *= float(wt[i])
                    point[cpars[2 + j].id] = float(x)
                    if cpars[2 + j].type == "orientation" and cpars[2 + j].name == "theta":
                        dth[step] = float(x)
                    o = nvalues + toff[j]
                    if j in dup:
                        tv[o] = tv[o + 1] = asd(x)
                    else:
                        tv[o] = asd(x)
                    if cpars[2 + j].type != "orientation":
                        tv[2 + j] = asd(x)     # nominal := the point itself
                # carrier: W/2 + W/2; duplicated orientation parameters: 0.5 + 0.5.
                # All scalings are by powers of two, so the 2^d identical
                # combinations sum to exactly W (times the projection weight).
                for j in dup:
                    o = nvalues + toff[j]
                    tv[o + tnw] = tv[o + 1 + tnw] = asd(float(w) / 2.0 if j == carrier else 0.5)
                buf[:] = np.nan
                raw_call(kernel, fn, nq, 0, tn, tdet, tv, buf, 0.0, mode)
                contrib[step] = buf[:base + 4]
                wprod[step] = w
                ok = _eval_valid(info, point)
                if ok is None:
                    valid_known = False
                else:
                    pvalid[step] = ok
            wk = np.array(contrib[:, base], dtype="d")          # weight as the kernel saw it (with projection, 0 if invalid)
            valid = wk > 0
            probe("invalid_or_zero_weight_points", int(np.sum(~valid)))
            if np.any(~valid) and np.any(valid):
                probe("invalid_points_skipped")
            # cross-check the weight product independently (projection <= 1)
            ratio = np.where(valid, wk / np.where(wprod > 0, wprod, 1.0), 1.0)
            if cfg["dtype"] == "double" and np.any((ratio > 1 + 1e-12) | (ratio < -1e-12)):
                fail("A1", "weight seen by the kernel exceeds the product of distribution weights", cause="weights")
            # ... and exactly, in double precision: the weight a point enters with is the product
            # of its distribution weights, times |cos(theta jitter)| where the kernel applies the
            # jitter itself (2-D, oriented, equirectangular projection), and 0 only where the
            # model's own validity predicate says so.  (Until here the reference took the weight
            # from the kernel, so a point the kernel dropped was dropped from the reference too.)
            if cfg["dtype"] == "double" and valid_known and not violations:
                proj = np.abs(np.cos(np.radians(dth))) if (two_d and _kernel_applies_jitter(info)) else np.ones(n_loop)
                want_w = np.where(pvalid, wprod * proj, 0.0)
                badw = np.abs(wk - want_w) > 1e-10 * np.maximum(wprod, 1e-300)
                if np.any(badw):
                    k_ = int(np.argmax(badw))
                    fail("A1", "mesh point %d enters with weight %r; the product of its distribution weights is %r, "
                         "projection factor %r (theta jitter %r deg), valid by the model's predicate: %r"
                         % (k_, float(wk[k_]), float(wprod[k_]), float(proj[k_]), float(dth[k_]), bool(pvalid[k_])),
                         cause="point_weight")
                probe("point_weights_checked_exactly")
                if two_d and _kernel_applies_jitter(info) and np.any(np.abs(dth) > 90):
                    probe("theta_jitter_beyond_90_degrees")
            include = valid & (wk > cutoff)
            close = valid & (np.abs(wk - cutoff) <= 8 * np.finfo(kernel.dtype).eps * max(cutoff, 1e-300)) & (wk != cutoff)
            if len(order) > 1:
                close |= valid & (wk == cutoff) & (cutoff > 0)
            if cutoff > 0 and np.any(close):
                ambiguous = True
                probe("ambiguous_cutoff_reference_skipped")
            if np.any(valid & ~include):
                probe("cutoff_excluded_points")
            if cutoff > 0 and np.any(valid & (wk == cutoff)) and len(order) <= 1:
                probe("weight_equals_cutoff_exactly")
            # The per-point values come out of the kernel already multiplied by the
            # weight *the kernel* applied to that accumulator.  Volumes and the
            # effective radius do not depend on orientation, so mesh points that
            # differ only in their jitter angles must give the same V and R once
            # the common weight is divided out: an accumulator that is weighted
            # differently from the others shows up here.
            orient_loops = [j for j in order if cpars[2 + j].type == "orientation"]
            if orient_loops and cfg["dtype"] == "double" and not violations:
                shape_loops = [l for l, j in enumerate(order) if cpars[2 + j].type != "orientation"]
                keys = np.zeros(n_loop, dtype=np.int64)
                for l in shape_loops:
                    keys = keys * (lens[l] + 1) + (np.arange(n_loop) // strides[l]) % lens[l]
                slots = [base + 1, base + 2] + ([base + 3] if mode else [])
                with np.errstate(all="ignore"):
                    derived = np.array(contrib[:, slots], "d") / wk[:, None]
                for g in np.unique(keys[valid]):
                    rows = derived[valid & (keys == g)]
                    spread = rows.max(axis=0) - rows.min(axis=0)
                    if np.any(spread > 1e-10 * (np.abs(rows).max(axis=0) + 1e-300)):
                        which = ["form volume", "shell volume", "effective radius"][int(np.argmax(
                            spread / (np.abs(rows).max(axis=0) + 1e-300)))]
                        fail("A4", "the %s accumulated per mesh point depends on the orientation jitter of the point "
                             "(points that differ only in jitter angles give %r .. %r after the common weight is "
                             "divided out): that accumulator is not weighted like the others"
                             % (which, float(rows.min(axis=0)[np.argmax(spread)]), float(rows.max(axis=0)[np.argmax(spread)])),
                             cause="accumulator_weighting")
                        break
                probe("orientation_independent_accumulators_checked")
            gated = np.where(include[:, None], contrib, np.longdouble(0))   # (NaN * 0 would poison the sum)
            prefix = np.vstack([np.zeros((1, base + 4), np.longdouble), np.cumsum(gated, axis=0)])
            mags = np.cumsum(np.abs(gated), axis=0)
            mags = np.vstack([np.zeros((1, base + 4), np.longdouble), mags])
        # ---- schedules over the implementation's own mesh ------------------------------
        rng = random.Random(cfg["sched_seed"])
        # (a distribution cut to <= 1 point is judged by the final value, A2, not by prefixes)
        # (single precision: a combined weight below float32's normal range reaches the kernel as
        # a subnormal with a large relative error, and the reference's own halved copy of it
        # rounds differently; such meshes are judged by schedule agreement only)
        if cfg["dtype"] != "double" and contrib is not None and np.any((wprod > 0) & (wprod < 1e-35)):
            ambiguous = True
            probe("subnormal_weight_in_single_precision_reference_skipped")
        check_prefix = (contrib is not None and not ambiguous and n_impl == n_loop and not truncated)
        # double: 1e-11 of the magnitude sum; single: the kernel accumulates in
        # float32, n * eps32 with a margin
        tol = 1e-11 if cfg["dtype"] == "double" else max(2e-5, 4 * n_loop * 1.2e-7)
        floor = float(np.finfo(kernel.dtype).tiny) * 100.0 * max(1, n_loop)
        buffers = {}
        if n_impl > 0:
            scheds = make_schedules(rng, n_impl, slot_stride[:max(1, len(order))] if order else [], cfg.get("tier", "quick"))
            for name, windows in scheds:
                # (the harness owns the result vector of its raw invocations; its size is the
                # kernel interface's: one or two slots per q point plus four running totals)
                res = np.empty(base + 4, kernel.dtype)
                res[:] = np.nan                       # a schedule starting at 0 must reset the buffer
                pos = 0
                for (a, b) in windows:
                    raw_call(kernel, fn, nq, a, b, call_details, values, res, cutoff, mode)
                    pos = min(b, n_impl)
                    if a > 0 and any(a % s for s in slot_stride[:len(order)] if s > 1):
                        probe("split_inside_innermost_loop")
                    if a > 0 and any(s > 1 and a % s == 0 for s in slot_stride[:len(order)]):
                        probe("split_on_stride_boundary")
                    if a == 0 and windows.index((a, b)) > 0:
                        probe("restart_from_zero_midway")
                        fired["restart_from_zero"] = fired.get("restart_from_zero", 0) + 1
                    if check_prefix:
                        got = np.array(res[:base + 4], np.longdouble)
                        want = prefix[pos]
                        scale = mags[pos]
                        # (absolute floor: sums of subnormal terms carry no relative precision)
                        bad = ~agree(got, want, tol * scale + floor)
                        if mode == 0:
                            bad[base + 3] = False
                        if np.any(bad):
                            i = int(np.argmax(bad))
                            fail("S1", "after invocation (pd_start=%d, pd_stop=%d) of schedule %s the running total [%d] "
                                 "is %r, reference prefix sum at %d is %r" % (a, b, name, i, float(got[i]), pos, float(want[i])),
                                 schedule=name, cause="prefix")
                            break
                if len(windows) > 1:
                    nontrivial = True
                    if len(order) >= 3:
                        probe("three_or_more_nested_loops_split")
                buffers[name] = res[:base + 4].tobytes()
                events.append(["schedule", name, len(windows), hashlib.sha256(buffers[name]).hexdigest()[:12]])
                if violations:
                    break
            # the repo's own driver, unmodified
            if not violations:
                # (the driver may keep its vector on the kernel object or hand it back)
                if getattr(kernel, "result", None) is not None:
                    kernel.result[:] = np.nan
                driver = getattr(kernel, "_call_kernel", None)
                if driver is not None:
                    ret = driver(call_details, values, cutoff, is_magnetic, mode)
                    driver_res = ret if ret is not None else kernel.result
                    buffers["repo_driver_step100"] = np.asarray(driver_res)[:base + 4].tobytes()
                else:
                    # (the driver is then judged through the public interface only, A2)
                    probe("repo_driver_entry_point_not_found")
                if n_impl > 100:
                    probe("mesh_over_100_points_real_driver")
                    nontrivial = True
                # Schedule independence.  The current kernel adds the same terms in
                # the same order whatever the split, so the buffers are bit-identical
                # (probed); the *oracle* allows rounding-level differences so that an
                # implementation which combined per-invocation partial sums would not
                # be flagged for the last bits.
                ref = np.frombuffer(buffers["single"], kernel.dtype).astype("d")
                stol = 1e-12 if cfg["dtype"] == "double" else 2e-5
                scale_s = np.abs(ref)
                if contrib is not None and n_impl == n_loop:
                    scale_s = np.maximum(scale_s, np.array(mags[-1], "d"))
                identical = True
                for name, b in buffers.items():
                    if b == buffers["single"]:
                        continue
                    identical = False
                    arr = np.frombuffer(b, kernel.dtype).astype("d")
                    sfloor = float(np.finfo(kernel.dtype).tiny) * 100.0 * max(1, n_impl)
                    if not np.all(agree(arr, ref, stol * scale_s + sfloor)):
                        i = int(np.argmax(~agree(arr, ref, stol * scale_s + sfloor)))
                        fail("S2", "schedule %s leaves total[%d] = %r where the single invocation leaves %r "
                             "(mesh of %d points, strides %r)" % (name, i, float(arr[i]), float(ref[i]), n_impl,
                                                                   slot_stride[:len(order)]),
                             schedule=name, cause="schedule_dependence")
                        break
                probe("schedules_bit_identical" if identical else "schedules_differ_in_last_bits")
        # ---- the public interface against the reference sums -------------------------------
        # (single precision too: the kernel accumulates in float32, so its sums are only good
        # to about n * eps32 of the magnitude sum; all terms of I(q), V and R are non-negative)
        atol = 1e-9 if cfg["dtype"] == "double" else max(1e-4, 8 * n_loop * 1.2e-7)
        if not violations and not ambiguous:
            if cfg["dtype"] != "double":
                probe("public_interface_checked_in_single_precision")
            if n_ref == 0:
                tot = np.zeros(base + 4, np.longdouble)
                probe("empty_mesh")
            else:
                tot = prefix[-1]
            sw, svf, svs, sr = tot[base], tot[base + 1], tot[base + 2], tot[base + 3]
            scale_, bkg = float(mesh[0][0]), float(mesh[1][0])
            if sw == 0:
                probe("no_qualifying_point")
            f2 = np.array(tot[0:base:(2 if base == 2 * nq else 1)], np.longdouble)
            if sw == 0:
                want_iq = np.full(nq, bkg)
            elif svs == 0:
                want_iq = np.array(scale_ * f2 / sw + bkg, "d")
            else:
                want_iq = np.array(scale_ * f2 / svs + bkg, "d")
            # the kernel object has been used before (as a caller's would have been):
            # prime it with a different, non-empty request first
            direct_model.call_kernel(kernel, {"scale": 3.0, "background": 7.0}, cutoff=0.0)
            got_iq = direct_model.call_kernel(kernel, dict(pars), cutoff=cutoff)
            denom = np.abs(want_iq) + abs(bkg) + 1e-300
            # (sums of subnormal float32 terms carry no relative precision: the same absolute
            # floor as for the running totals, carried through the normalisation)
            norm = float(svs if svs != 0 else sw) if sw != 0 else 1.0
            afloor = floor * abs(scale_) / max(norm, 1e-300) if cfg["dtype"] != "double" else 0.0
            ffloor = floor / max(float(sw), 1e-300) if (cfg["dtype"] != "double" and sw != 0) else 0.0
            if not np.all(agree(got_iq, want_iq, atol * denom + afloor)):
                i = int(np.argmax(~agree(got_iq, want_iq, atol * denom + afloor)))
                cause = "truncated_to_le_1_point" if truncated else "value"
                fail("A2", "call_kernel returns %r at q[%d]; scale*sum(wF^2)/sum(wV)+background over the qualifying "
                     "mesh points is %r (dispersed %r, lengths %r, truncated %r, mesh %d points, %d qualify)"
                     % (float(got_iq[i]), i, float(want_iq[i]), requested, lengths_all, truncated, n_ref,
                        int(np.sum(include)) if contrib is not None else 0), cause=cause)
            elif truncated:
                probe("truncated_distribution_agrees")
            if not violations and sw > 0:
                mpars = dict(pars)
                if mode:
                    mpars["radius_effective_mode"] = mode
                F1, F2, Reff, Vs, ratio = direct_model.call_Fq(kernel, mpars, cutoff=cutoff)
                checks = [("F2", np.array(F2, "d"), np.array(f2 / sw, "d"))]
                if base == 2 * nq:
                    f1 = np.array(tot[1:base:2], np.longdouble)
                    m1 = np.array(mags[-1][1:base:2] if contrib is not None else f1, np.longdouble)
                    got1 = np.array(F1, "d")
                    if not np.all(agree(got1, np.array(f1 / sw, "d"), atol * np.array(m1 / sw, "d") + 1e-300 + ffloor)):
                        fail("A2", "call_Fq <F> differs from sum(wF)/sum(w)", cause="value")
                if svs != 0:
                    checks.append(("V_shell", np.array([Vs], "d"), np.array([svs / sw], "d")))
                    checks.append(("V_ratio", np.array([ratio], "d"), np.array([svf / svs], "d")))
                if mode:
                    checks.append(("R_eff", np.array([Reff], "d"), np.array([sr / sw], "d")))
                for nm, got, want in checks:
                    if not np.all(agree(got, want, atol * (np.abs(want) + 1e-300) + (ffloor if nm == "F2" else 0.0))):
                        fail("A2", "call_Fq %s is %r, reference %r" % (nm, got[:3].tolist(), want[:3].tolist()),
                             cause="truncated_to_le_1_point" if truncated else "value")
                        break
        if truncated and any(lengths_all[[p.name for p in cpars[2:npars + 2]].index(nm)] == 1 for nm in truncated):
            probe("one_point_truncation")
        events.append(["n_impl", n_impl, "n_ref", n_ref, "qualify",
                       int(np.sum(include)) if contrib is not None else 0])
    except HarnessError as exc:
        harness_error = str(exc)
    return _result(cfg, events, violations, probes, fired, harness_error, nontrivial, keep_events)


def _result(cfg, events, violations, probes, fired, harness_error, nontrivial, keep_events):
    h = hashlib.sha256()
    h.update(json.dumps(cfg, sort_keys=True, default=str).encode())
    h.update(json.dumps(events, sort_keys=True, default=str).encode())
    res = {"digest": h.hexdigest(), "shape": None,
           "steps": sum(e[2] for e in events if e and e[0] == "schedule"), "fired": fired, "probes": probes,
           "violations": violations, "harness_error": harness_error, "nontrivial": nontrivial, "decisions": None,
           "extra": {"schedules": sum(1 for e in events if e and e[0] == "schedule")}}
    if keep_events:
        res["events"] = events
    return res


run_config = run_one


# -------------------------------------------------------------- configuration

def gen_pars(w, info, two_d, tier):
    """1..max_pd (sometimes max_pd+1) dispersed parameters with every
    distribution type, mesh sizes on both sides of 100, limits that cut a
    distribution to 2, 1 or 0 points."""
    partable = info.parameters
    pd_names = sorted(dispersible(partable, two_d))
    pars = {}
    byname = dict((p.name, p) for p in partable.call_parameters)
    # perturb some plain values
    for p in partable.call_parameters[2:2 + partable.npars]:
        if p.type in ("volume", "orientation") and w.random() < 0.5 and np.isfinite(p.default) and p.default:
            pars[p.name] = float(p.default) * w.choice([0.5, 0.8, 1.3, 2.0])
    if w.random() < 0.5:
        pars["scale"] = w.choice([0.5, 2.0, 1e-2])
    if w.random() < 0.5:
        pars["background"] = w.choice([0.0, 0.25, 1e-3])
    for cp in partable.kernel_parameters:
        if getattr(cp, "is_control", False) and cp.name in byname:
            lo, hi = cp.limits
            pars[cp.name] = w.randint(int(max(lo, 0)), int(min(hi, 5)))  # multiplicity: number of shells / case
    if not pd_names:
        return pars, 0
    r = w.random()
    k = 1 if r < 0.35 else 2 if r < 0.65 else w.randint(1, min(5, len(pd_names)))
    over = False
    if len(pd_names) > partable.max_pd and w.random() < 0.06:
        k, over = partable.max_pd + 1, True
    k = min(k, len(pd_names), 5 if not over else 6)
    if not over:
        k = min(k, partable.max_pd)
    chosen = w.sample(pd_names, k)
    # Mesh budget.  Models outside the quick pool include ones that integrate
    # numerically at every q (milliseconds per mesh point): keep theirs small
    # so that a workload (reference + ~15 schedules) stays within seconds.
    fast = info.id in QUICK_MODELS
    budget = (3000 if tier != "quick" else 900) if fast else 150
    if fast and not partable.orientation_parameters:
        budget = 3000                  # microseconds per point: afford meshes well over 1000 points everywhere
    if partable.orientation_parameters and not two_d:
        budget = min(budget, 300)      # 1-D values of oriented shapes are numerical orientation averages
    if info.id in VERY_SLOW_MODELS:
        budget = 24                    # tens of milliseconds per mesh point and q value
    for name in chosen:
        p = byname[name]
        dist = w.choice(DISTS)
        npts = w.choice([2, 3, 4, 5, 7, 10, 13, 25, 40])
        if k == 1 and w.random() < 0.4:
            npts = w.choice([99, 100, 101, 140, 250, 1001, 1300])
        while npts > 2 and npts * 2 > budget:
            npts //= 2
        budget = max(2, budget // npts)
        if p.type == "orientation":
            width = w.choice([2.0, 8.0, 20.0, 60.0])
        else:
            width = w.choice([0.05, 0.1, 0.2, 0.5])
        nsigma = w.choice([3.0, 3.0, 2.0, 5.0])
        t = w.random()
        if p.type != "orientation" and not over:
            if t < 0.08:
                # empty distribution: centre outside the limits
                pars[name] = -abs(pars.get(name, p.default if p.default else 10.0)) - 1.0
                width, dist = 0.1, w.choice(["gaussian", "rectangle", "uniform"])
            elif t < 0.16:
                # exactly one point survives (not the nominal one): two points straddling the lower limit
                dist, npts, width = "uniform", 2, w.choice([2.0, 3.0])
            elif t < 0.26:
                # cut down to a few points by the lower limit
                dist, width = w.choice(["gaussian", "rectangle", "uniform"]), w.choice([0.6, 0.9, 1.5])
                nsigma = 3.0
        pars[name + "_pd"] = width
        pars[name + "_pd_n"] = npts
        pars[name + "_pd_type"] = dist
        pars[name + "_pd_nsigma"] = nsigma
    return pars, k


def gen_config(run_seed, tier):
    from sasmodels import core
    st = Streams(run_seed)
    w, c = st["workload"], st["config"]
    pool = QUICK_MODELS if (tier == "quick" or c.random() < 0.3) else G["all_models"]
    name = w.choice(pool)
    info = core.load_model_info(name)
    partable = info.parameters
    oriented = bool(dispersible(partable, True) - dispersible(partable, False))
    two_d = c.random() < (0.45 if oriented else 0.15)
    pars, k = gen_pars(w, info, two_d, tier)
    cutoff = c.choice([0.0, 0.0, 1e-5, 1e-3, 0.1])
    if c.random() < 0.04 and dispersible(partable, False):
        # the boundary case: every weight equals the cutoff exactly
        nm = sorted(dispersible(partable, False))[0]
        pars = {nm + "_pd": 0.2, nm + "_pd_n": 10, nm + "_pd_type": "uniform", "background": 0.25}
        cutoff, two_d = 0.1, False
    if two_d and partable.nmagnetic and c.random() < 0.15:
        mp = [p.name for p in partable.call_parameters if p.name.endswith("_M0")]
        if mp:
            pars[mp[0]] = 2.0
            pars[mp[0][:-3] + "_mtheta"] = 35.0
            pars["up_frac_i"] = 0.3
            pars["up_theta"] = 60.0
    modes = info.radius_effective_modes
    mode = c.randint(1, len(modes)) if (modes and c.random() < 0.4) else 0
    return {"model": name, "dtype": "single" if c.random() < 0.1 else "double",
            "q": c.choice(["xy4", "xy6"] if two_d else ["q3", "q6"]), "pars": pars, "cutoff": cutoff,
            "mode": mode, "sched_seed": st["schedule"].getrandbits(48), "tier": tier}


def sweep_configs(tier):
    """Coverage floor: for a few fixed workloads every schedule family runs
    whatever the seed (4 nested loops in 2-D, a mesh over 100 points in 1-D,
    empty and one-point truncations, the exact-cutoff boundary)."""
    out = []
    base = {"dtype": "double", "cutoff": 0.0, "mode": 0, "tier": tier}
    out.append(dict(base, model="cylinder", q="xy4", sched_seed=1, cutoff=1e-5, pars={
        "radius_pd": 0.1, "radius_pd_n": 7, "length_pd": 0.2, "length_pd_n": 6, "length_pd_type": "schulz",
        "theta_pd": 10.0, "theta_pd_n": 5, "phi_pd": 5.0, "phi_pd_n": 4, "theta": 50.0}))
    out.append(dict(base, model="sphere", q="q6", sched_seed=2, mode=1, pars={
        "radius_pd": 0.2, "radius_pd_n": 140, "radius_pd_type": "schulz"}))
    out.append(dict(base, model="parallelepiped", q="xy6", sched_seed=3, pars={
        "length_a_pd": 0.1, "length_a_pd_n": 3, "length_b_pd": 0.1, "length_b_pd_n": 4, "length_c_pd": 0.1,
        "length_c_pd_n": 5, "theta_pd": 5.0, "theta_pd_n": 3, "psi_pd": 10.0, "psi_pd_n": 3}))
    out.append(dict(base, model="capped_cylinder", q="q3", sched_seed=4, pars={
        "radius_pd": 0.3, "radius_pd_n": 9, "radius_cap_pd": 0.3, "radius_cap_pd_n": 9}))
    out.append(dict(base, model="sphere", q="q3", sched_seed=5, cutoff=0.1, pars={
        "radius_pd": 0.2, "radius_pd_n": 10, "radius_pd_type": "uniform", "background": 0.25}))
    out.append(dict(base, model="core_multi_shell", q="q3", sched_seed=6, pars={
        "n": 3, "radius_pd": 0.1, "radius_pd_n": 5, "thickness1_pd": 0.2, "thickness1_pd_n": 4,
        "thickness2_pd": 0.1, "thickness2_pd_n": 3, "thickness3_pd": 0.1, "thickness3_pd_n": 2}))
    out.append(dict(base, model="sphere", q="q3", sched_seed=7, pars={
        "radius": -10.0, "radius_pd": 0.1, "radius_pd_n": 5, "background": 0.25}))
    out.append(dict(base, model="vesicle", q="q3", sched_seed=8, pars={
        "thickness": 5.0, "thickness_pd": 3.0, "thickness_pd_n": 2, "thickness_pd_type": "uniform"}))
    out.append(dict(base, model="parallelepiped", q="xy4", sched_seed=9, pars=dict(
        [(k + "_pd", 0.1 if k.startswith("length") else 5.0) for k in ("length_a", "length_b", "length_c", "theta", "phi", "psi")]
        + [(k + "_pd_n", 2) for k in ("length_a", "length_b", "length_c", "theta", "phi", "psi")])))
    out.append(dict(base, model="sphere", q="xy6", sched_seed=13, pars={
        "radius_pd": 0.2, "radius_pd_n": 140, "sld_M0": 2.0, "sld_mtheta": 35.0, "sld_mphi": 20.0,
        "up_frac_i": 0.3, "up_frac_f": 0.6, "up_theta": 60.0, "up_phi": 15.0}))
    out.append(dict(base, model="cylinder", q="xy4", sched_seed=14, cutoff=1e-5, pars={
        "radius_pd": 0.1, "radius_pd_n": 6, "theta_pd": 10.0, "theta_pd_n": 5, "phi_pd": 8.0, "phi_pd_n": 4,
        "theta": 40.0, "phi": 25.0, "sld_M0": 1.5, "sld_mtheta": 70.0, "sld_solvent_M0": 0.5,
        "up_frac_i": 0.1, "up_theta": 30.0}))
    out.append(dict(base, model="sphere", q="q3", sched_seed=10, dtype="single", pars={
        "radius_pd": 0.3, "radius_pd_n": 1300, "radius_pd_type": "lognormal"}))
    out.append(dict(base, model="vesicle", q="q6", sched_seed=11, dtype="single", mode=1, pars={
        "radius_pd": 0.2, "radius_pd_n": 35, "thickness_pd": 0.2, "thickness_pd_n": 40}))
    out.append(dict(base, model="vesicle", q="q3", sched_seed=12, pars={
        "radius_pd": 0.2, "radius_pd_n": 41, "thickness_pd": 0.1, "thickness_pd_n": 29, "thickness_pd_type": "schulz"}))
    # a parameter name that several models share with different limits: the same dispersity
    # request on one model right after the other (both orders), reaching between the limits
    from sasmodels import core
    shared = {}
    for name in sorted(G.get("all_models") or []):
        t = core.load_model_info(name).parameters
        for p in t.call_parameters[2:2 + t.npars]:
            if p.polydisperse and p.type == "volume":
                shared.setdefault(p.name, {}).setdefault(tuple(float(x) for x in p.limits), []).append(name)
    k_ = 0
    for pname, groups in sorted(shared.items()):
        if len(groups) < 2:
            continue
        reps = []
        for lim, models in sorted(groups.items()):
            cheap = [m for m in models if m in QUICK_MODELS]
            reps.append((lim, (cheap or models)[0]))
        for (lim_a, ma) in reps:
            for (lim_b, mb) in reps:
                if ma == mb:
                    continue
                lo = max(lim_a[0], lim_b[0])
                value = lo * 1.5 + 0.5 if np.isfinite(lo) else 1.0
                req = {pname: value, pname + "_pd": 0.6, pname + "_pd_n": 9, pname + "_pd_nsigma": 3.0}
                k_ += 1
                out.append(dict(base, model=ma, q="q3", sched_seed=100 + k_, pars=dict(req),
                                prelude=[{"model": mb, "pars": dict(req), "q": "q3"}]))
    # distribution points exactly on a finite upper limit and on the lower limit (both take part)
    out.append(dict(base, model="raspberry", q="q3", sched_seed=17, pars={
        "penetration": 0.5, "penetration_pd": 1.0, "penetration_pd_n": 5, "penetration_pd_type": "uniform"}))
    out.append(dict(base, model="raspberry", q="q3", sched_seed=19, pars={
        "penetration": 0.5, "penetration_pd": 0.5, "penetration_pd_n": 5, "penetration_pd_nsigma": 2.0}))
    out.append(dict(base, model="raspberry", q="q3", sched_seed=20, pars={
        "penetration": 0.5, "penetration_pd": 0.5, "penetration_pd_n": 9, "penetration_pd_nsigma": 2.0,
        "penetration_pd_type": "schulz"}))
    out.append(dict(base, model="sphere", q="q3", sched_seed=18, pars={
        "radius": 10.0, "radius_pd": 1.0, "radius_pd_n": 5, "radius_pd_type": "uniform"}))
    # theta jitter reaching beyond +-90 degrees: the projection factor is |cos|, such points take part
    out.append(dict(base, model="cylinder", q="xy4", sched_seed=15, cutoff=1e-5, pars={
        "theta": 30.0, "theta_pd": 50.0, "theta_pd_n": 7, "theta_pd_nsigma": 3.0, "radius_pd": 0.1, "radius_pd_n": 4}))
    out.append(dict(base, model="parallelepiped", q="xy6", sched_seed=16, pars={
        "theta": 60.0, "theta_pd": 120.0, "theta_pd_n": 5, "theta_pd_type": "uniform", "psi_pd": 15.0, "psi_pd_n": 3}))
    return [dict(c, family="fixed_workloads") for c in out]


# -------------------------------------------------------------- minimisation

def violation_class(v):
    return (v["inv"], v.get("cause"))


def finding_key(cfg, violations):
    v = violations[0]
    return {"inv": v["inv"], "cause": v.get("cause")}


def shrink_candidates(cfg, decisions):
    pars = cfg["pars"]
    names = sorted(set(k[:-3] for k in pars if k.endswith("_pd")))
    # drop a dispersed parameter
    for nm in names:
        c = copy.deepcopy(cfg)
        for suf in ("_pd", "_pd_n", "_pd_type", "_pd_nsigma"):
            c["pars"].pop(nm + suf, None)
        yield c, None
    # drop plain values
    for k in sorted(pars):
        if "_pd" not in k:
            c = copy.deepcopy(cfg)
            del c["pars"][k]
            yield c, None
    # fewer points, simpler distribution
    for nm in names:
        n = pars.get(nm + "_pd_n", 0)
        for n2 in sorted(set([2, 3, n // 2])):
            if 2 <= n2 < n:
                c = copy.deepcopy(cfg)
                c["pars"][nm + "_pd_n"] = n2
                yield c, None
        if pars.get(nm + "_pd_type", "gaussian") != "gaussian":
            c = copy.deepcopy(cfg)
            c["pars"][nm + "_pd_type"] = "gaussian"
            yield c, None
    if cfg["cutoff"]:
        c = copy.deepcopy(cfg)
        c["cutoff"] = 0.0
        yield c, None
    if cfg.get("mode"):
        c = copy.deepcopy(cfg)
        c["mode"] = 0
        yield c, None
    if cfg["q"] in ("q6", "xy6"):
        c = copy.deepcopy(cfg)
        c["q"] = "q3" if cfg["q"] == "q6" else "xy4"
        yield c, None
    if cfg["model"] != "sphere" and cfg["q"].startswith("q"):
        c = copy.deepcopy(cfg)
        c["model"] = "sphere"
        c["pars"] = dict((k.replace(names[0], "radius") if names else k, v) for k, v in pars.items()
                         if (names and k.startswith(names[0])) or k in ("scale", "background"))
        yield c, None


def sample_of(cfg, res):
    return {"model": cfg["model"], "dtype": cfg["dtype"], "q": cfg["q"], "pars": cfg["pars"],
            "cutoff": cfg["cutoff"], "mode": cfg.get("mode", 0),
            "schedules_run": (res.get("extra") or {}).get("schedules"), "violations": len(res["violations"])}


SIM_TIME_MEASURE = "logical time: kernel invocations issued by the simulated schedules (scheduler_steps_total)"
SCHEDULE_SHRINK = False
CHUNK = 8
CHUNK_TIMEOUT = 1500
MINIMISE_BUDGET = 20
MINIMISE_TOTAL = 200
EXPECTED_PROBES = ["split_inside_innermost_loop", "split_on_stride_boundary", "three_or_more_nested_loops_split",
                   "restart_from_zero_midway", "mesh_over_100_points_real_driver",
                   "invalid_points_skipped", "cutoff_excluded_points", "one_point_truncation", "empty_mesh",
                   "weight_equals_cutoff_exactly", "refused_too_many"]


def n_runs(tier):
    return 3000 if tier == "quick" else 60000


def budget(tier):
    return 240 if tier == "quick" else 2000


def extra_evidence(extras, agg):
    return {"workload_schedule_pairs": sum(e.get("schedules", 0) for e in extras),
            "kernel_invocations_in_schedules": agg["steps"],
            "decided_dimension": "the invocation schedule (pd_start, pd_stop windows, restarts); models, parameter "
                                 "sets and distributions are sampled workload variety, not decided"}


RULE = ("one case = one workload (compiled model, 1-D or 2-D q, parameter set with 0..6 dispersed parameters of any "
        "distribution type, mesh sizes 1..~3000 straddling 100, limits cutting a distribution to 2/1/0 points, cutoff "
        "incl. the exact-equality boundary, optional magnetism and effective-radius mode) driven through 8-20 "
        "invocation schedules of the compiled kernel (single call, the repo's own step-100 driver, size-1 windows, "
        "cuts on/off each stride boundary, every-stride, prime and random partitions, restart from zero "
        "mid-way), with the running totals checked against reference prefix sums after every "
        "invocation. distinct = distinct sha256 of workload+event log; non-trivial = the mesh was split into >= 2 "
        "invocations")

ASSUMPTIONS = [
    "the reference shares the per-point physics with the implementation (each mesh point is evaluated alone through the same compiled kernel as a one-point mesh); what is independent is the mesh enumeration, gating, accumulation, restart and normalisation",
    "prefix sums are compared at 1e-11 (double) / max(2e-5, 4 n eps32) (single) relative to the sum of magnitudes; the public-interface values in double only; schedules are compared with each other at 1e-12 (double) / 2e-5 (single) of the magnitude sums - bit-identity is measured and reported as a probe, not demanded",
    "workloads whose cutoff lies within 8 ulp of a multi-loop weight product are checked for schedule independence only (the reference cannot decide '>' there)",
    "the input dimensions (models, parameter sets, distributions, limits) are sampled workload variety; the dimension this technique decides is the invocation schedule",
    "GPU back ends (per-call private accumulators) are not exercised",
]

REAL_STUB = {
    "real": ["compiled kernels (raw <model>_Iq/_Iqxy/_Imagnetic symbols via ctypes)", "details.make_kernel_args/make_details",
             "direct_model.get_mesh/call_kernel/call_Fq", "kerneldll.DllKernel._call_kernel (step-100 driver)",
             "C compiler (memoised by content)"],
    "stub": [],
}
