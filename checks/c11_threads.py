"""C11 (b) - caller threads on the lock-protected SasView-style interface.

2-3 caller threads, each owning its model instances, evaluate inside one real
process forked from the pristine parent; the baton scheduler interleaves them
at every line of sasview_model.py and kerneldll.py, and
sasview_model.calculation_lock is replaced by a simulated lock with the same
semantics.  Oracle: every completed call returns the bytes a fresh process
gives for the same request.
"""
import copy
import random

from simkit import baton, forksim
from simkit.baton import HarnessError

from checks import c11_history as H


def _child(state, cmd):
    _, cfg, decisions = cmd
    from sasmodels import sasview_model
    # classes exist before the caller threads start (SasView builds them at start-up)
    for t in cfg["threads"]:
        for call in t["calls"]:
            H._sv_class(state, call["model"])
    for m in (cfg.get("shared") or {}).values():
        H._sv_class(state, m)
    if decisions is not None:
        chooser = baton.ReplayChooser(decisions)
    else:
        chooser = baton.make_chooser(cfg["policy"], random.Random(cfg["sched_seed"]))
    sched = baton.Scheduler(chooser, cfg.get("step_cap", 400000), trace_files=H.G["trace_files"])
    import _thread
    import threading as _threading
    rlock_type = type(_threading.RLock())
    # (same kind of lock as the one it stands in for: re-entrant iff the original is)
    lock = baton.SimLock(sched, "calculation_lock",
                         reentrant=isinstance(getattr(sasview_model, "calculation_lock", None), rlock_type))
    if not cfg.get("no_sim_lock"):
        sasview_model.calculation_lock = lock
    # Any other lock the interface may use has to be visible to the scheduler too (a real
    # lock held by a parked thread would block the simulator): locks that already exist
    # at module or class level are replaced, and the module's lock factories hand out
    # simulated locks from now on.
    real_types = (type(_thread.allocate_lock()), rlock_type)
    sim_locks = [lock]

    def _sim(name, reentrant=False):
        lk = baton.SimLock(sched, name, reentrant=reentrant)
        sim_locks.append(lk)
        return lk
    from sasmodels import kerneldll as _kd
    for mod in (sasview_model, _kd):
        for name, val in list(vars(mod).items()):
            if isinstance(val, real_types):
                setattr(mod, name, _sim("%s.%s" % (mod.__name__.split(".")[-1], name), isinstance(val, rlock_type)))
            elif isinstance(val, type):
                for an, av in list(vars(val).items()):
                    if isinstance(av, real_types):
                        setattr(val, an, _sim("%s.%s" % (val.__name__, an), isinstance(av, rlock_type)))

    class _LockFactory(object):
        def __init__(self, real):
            self._real = real

        def __getattr__(self, name):
            return getattr(self._real, name)

        def allocate_lock(self):
            return _sim("lock#%d" % len(sim_locks))
        Lock = allocate_lock

        def RLock(self):
            return _sim("rlock#%d" % len(sim_locks), True)
    for mod in (sasview_model, _kd):
        for name in ("thread", "_thread", "threading"):
            if name in vars(mod):
                setattr(mod, name, _LockFactory(vars(mod)[name]))
    lazy = [0]

    orig_block = sched.block

    def block(what):
        if any(getattr(c, "_model", None) is None for c in state["sv_classes"].values()):
            lazy[0] += 1
        return orig_block(what)
    sched.block = block

    # instances handed back and forth between threads: every operation on one of
    # them (configuration + evaluation) happens while holding that instance's
    # token, so its requests are well defined by the order the scheduler chose
    shared = dict((x, H._sv_new(state, m)) for x, m in sorted((cfg.get("shared") or {}).items()))
    tokens = dict((x, baton.SimLock(sched, "inst:" + x)) for x in shared)
    shared_log = []

    def body(spec):
        def run(actor):
            out = []
            inst = None
            for call in spec["calls"]:
                if call.get("shared"):
                    x = call["shared"]
                    with tokens[x]:
                        for c in call["config"]:
                            H._sv_apply(shared[x], tuple(c))
                        res = H._sv_eval(state, shared[x], call["q"], call["fn"])
                        shared_log.append([x, len(shared_log), spec["name"], [list(c) for c in call["config"]],
                                           call["q"], call["fn"], res])
                    out.append(None)
                    continue
                how = call.get("how", "new")
                if how == "new" or inst is None:
                    inst = H._sv_new(state, call["model"])
                elif how == "clone":
                    inst = inst.clone()
                # "more": keep evaluating the instance this thread already holds
                for c in call["config"]:
                    H._sv_apply(inst, tuple(c))
                out.append(H._sv_eval(state, inst, call["q"], call["fn"]))
            return out
        return run

    actors = [sched.spawn(t["name"], body(t), kind="thread") for t in cfg["threads"]]
    err = None
    try:
        sched.run()
    except HarnessError as exc:
        err = str(exc)
    results = {}
    for a in actors:
        results[a.name] = {"state": a.state, "exc": a.exc, "result": a.result}
    stop = sched.stop_reason
    try:
        sched.teardown()
    except HarnessError as exc:
        err = err or str(exc)
    return {"results": results, "decisions": list(sched.decisions), "digest": sched.digest({"cfg": cfg}),
            "shape": sched.shape(), "steps": sched.step, "preempted_mid": sched.preempted_mid,
            "lock_contended": sum(l.contended for l in sim_locks),
            "lock_acquisitions": sum(l.acquisitions for l in sim_locks),
            "lazy_contended": lazy[0], "stop_reason": stop, "harness_error": err, "shared_log": shared_log,
            "tail": [list(e) for e in sched.events[-40:]]}


def run_threads(cfg, decisions=None, keep_events=False):
    H.G["run_counter"] += 1
    import os
    import shutil
    run_dir = os.path.join(H.G["root"], "c11t-w%d-r%d" % (os.getpid(), H.G["run_counter"]))
    violations, probes, fired = [], {}, {}
    harness_error = None
    out = None
    try:
        status, payload = forksim.fresh_call(_child, ("threads", cfg, decisions),
                                             H.child_init(os.path.join(run_dir, "cache")))
        if status != "ok":
            violations.append({"inv": "H1", "kind": "threads", "model": None,
                               "detail": "the process died under caller threads (wait status %r)" % (payload,)})
        else:
            out = payload
            harness_error = out["harness_error"]
            if out["lock_contended"]:
                probes["threads_lock_contended"] = out["lock_contended"]
            if out["lazy_contended"]:
                probes["threads_lazy_build_contended"] = out["lazy_contended"]
            if out["stop_reason"] != "quiescent" and not harness_error:
                violations.append({"inv": "H1", "kind": "threads", "model": None,
                                   "detail": "caller threads did not finish: %s" % out["stop_reason"]})
            for t in cfg["threads"]:
                r = out["results"][t["name"]]
                if r["exc"] is not None:
                    violations.append({"inv": "H1", "kind": "threads", "model": t["calls"][0]["model"],
                                       "detail": "thread %s failed: %s: %s" % (t["name"], r["exc"][0], r["exc"][1][:300])})
                    continue
                acc, cur_model = [], None
                for call, got in zip(t["calls"], r["result"] or []):
                    if call.get("shared"):
                        continue
                    # the request an evaluation stands for = everything applied to that instance so far
                    if call.get("how", "new") == "new" or cur_model is None:
                        acc, cur_model = [], call["model"]
                    acc = acc + [list(c) for c in call["config"]]
                    req = {"kind": "sv", "model": cur_model, "config": list(acc),
                           "q": call["q"], "fn": call["fn"]}
                    fresh, unstable = H.fresh_answer(req, None, probes)
                    sr, fr = got["result"], fresh["result"]
                    same = (sr == fr) if sr[0] == "ok" and fr[0] == "ok" else (sr[0] == fr[0] and sr[1] == fr[1])
                    if not same:
                        violations.append({"inv": "H1", "kind": "threads", "model": call["model"],
                                           "detail": "thread %s: request %r returned %s under this interleaving but %s "
                                                     "in a fresh process" % (t["name"], req, H._short(got), H._short(fresh))})
                        break
                    if got["args_changed"]:
                        violations.append({"inv": "H2", "kind": "threads", "model": call["model"],
                                           "detail": got["args_changed"]})
            accs = {}
            for x, seq, who, config, qk, fn, got in (out.get("shared_log") or []):
                accs[x] = accs.get(x, []) + config
                probes["shared_instance_evaluation"] = probes.get("shared_instance_evaluation", 0) + 1
                req = {"kind": "sv", "model": cfg["shared"][x], "config": list(accs[x]), "q": qk, "fn": fn}
                fresh, unstable = H.fresh_answer(req, None, probes)
                sr, fr = got["result"], fresh["result"]
                same = (sr == fr) if sr[0] == "ok" and fr[0] == "ok" else (sr[0] == fr[0] and sr[1] == fr[1])
                if not same:
                    violations.append({"inv": "H1", "kind": "threads", "model": cfg["shared"][x],
                                       "detail": "instance %s handed between threads: evaluation #%d by %s of request %r "
                                                 "returned %s but %s in a fresh process"
                                                 % (x, seq, who, req, H._short(got), H._short(fresh))})
                    break
    except HarnessError as exc:
        harness_error = str(exc)
    finally:
        shutil.rmtree(run_dir, ignore_errors=True)
    res = {"digest": out["digest"] if out else "none", "shape": out["shape"] if out else None,
           "steps": out["steps"] if out else 0, "fired": fired, "probes": probes, "violations": violations,
           "harness_error": harness_error, "nontrivial": bool(out and out["preempted_mid"] > 0),
           "decisions": out["decisions"] if out else None, "extra": {"threads": 1, "evaluated": 0}}
    if keep_events and out:
        res["events"] = out["tail"]
    return res


def _call(w):
    return _call_for(w, w.choice(["sphere", "cylinder", "sphere@hardsphere", "core_multi_shell", "allpd", "pyplug"]))


def _call_for(w, name):
    config = []
    if w.random() < 0.6 and H.SV_SET.get(name):
        nm, val = w.choice(H.SV_SET[name])
        config.append(["set", nm, val])
    if w.random() < 0.4 and H.SV_DISP.get(name):
        par, typ, npts, width = w.choice(H.SV_DISP[name])
        config.append(["disp", par, typ, min(npts, 9), width])
    return {"model": name, "config": config, "q": w.choice(["q3", "q5"]),
            "fn": w.choice(["evalDistribution", "calculate_Iq"])}


def gen_config(st, tier):
    w, c = st["workload"], st["config"]
    n = c.choice([2, 2, 3])
    share = w.random() < 0.7
    first = _call(w)
    threads = []
    for i in range(n):
        calls = []
        for j in range(c.choice([1, 2, 2, 3, 4])):
            call = _call(w)
            if share and j == 0:
                call["model"] = first["model"]
                call["config"] = [list(cc) for cc in first["config"]] if w.random() < 0.5 else []
            if j > 0 and w.random() < 0.6:
                # go on with the instance this thread already holds (or a clone of it)
                prev = calls[-1]
                more = _call_for(w, prev["model"] if prev.get("how", "new") == "new" else prev["_m"])
                more["how"] = w.choice(["more", "more", "clone"])
                more["_m"] = more["model"]
                call = more
            call.setdefault("_m", call["model"])
            calls.append(call)
        threads.append({"name": "T%d" % i, "calls": calls})
    shared = {}
    if c.random() < 0.35:
        sm = w.choice(["sphere", "cylinder", "pyplug", "sphere@hardsphere"])
        shared = {"X1": sm}
        for t in threads:
            for _ in range(c.choice([1, 2, 3])):
                call = _call_for(w, sm)
                call["shared"] = "X1"
                t["calls"].insert(w.randrange(len(t["calls"]) + 1), call)
    pk = c.random()
    if pk < 0.3:
        policy = {"kind": "uniform"}
    elif pk < 0.6:
        policy = {"kind": "sticky", "p": c.choice([0.5, 0.9, 0.98])}
    else:
        policy = {"kind": "pct", "d": c.choice([1, 2, 3]), "horizon": 1500 * n}
    return {"kind": "threads", "threads": threads, "policy": policy, "shared": shared,
            "sched_seed": st["schedule"].getrandbits(48)}


def sweep_configs(tier):
    out = []
    for model in ("sphere", "cylinder"):
        for seed in range(4 if tier == "quick" else 12):
            call = {"model": model, "config": [], "q": "q3", "fn": "evalDistribution"}
            out.append({"kind": "threads", "family": "threads_same_class",
                        "threads": [{"name": "T0", "calls": [dict(call)]},
                                    {"name": "T1", "calls": [dict(call, config=[["set", "radius", 33.0]])]},
                                    {"name": "T2", "calls": [dict(call, q="q5")]}],
                        "policy": {"kind": "uniform"} if seed % 2 else {"kind": "pct", "d": 2, "horizon": 3000},
                        "sched_seed": seed})
    for seed in range(4 if tier == "quick" else 12):
        ev = {"model": "sphere", "shared": "X1", "config": [], "q": "q3", "fn": "evalDistribution"}
        out.append({"kind": "threads", "family": "instance_handed_between_threads", "shared": {"X1": "sphere"},
                    "threads": [{"name": "T0", "calls": [dict(ev), dict(ev, config=[["set", "radius", 35.0]]), dict(ev),
                                                         dict(ev, config=[["set", "radius.width", 0.2], ["set", "radius.npts", 5]])]},
                                {"name": "T1", "calls": [dict(ev), dict(ev), dict(ev, config=[["set", "scale", 0.5]]), dict(ev)]}],
                    "policy": {"kind": "uniform"} if seed % 2 else {"kind": "sticky", "p": 0.6},
                    "sched_seed": 200 + seed})
    for seed in range(3 if tier == "quick" else 10):
        call = {"model": "cylinder", "config": [], "q": "q3", "fn": "evalDistribution"}
        more = {"model": "cylinder", "how": "more", "config": [["set", "radius.width", 0.15], ["set", "radius.npts", 7]],
                "q": "q3", "fn": "evalDistribution"}
        clone = {"model": "cylinder", "how": "clone", "config": [["set", "length", 250.0]], "q": "q5",
                 "fn": "calculate_Iq"}
        out.append({"kind": "threads", "family": "threads_with_history",
                    "threads": [{"name": "T0", "calls": [dict(call), dict(more), dict(clone), dict(more)]},
                                {"name": "T1", "calls": [dict(call, config=[["set", "radius", 33.0]]), dict(clone), dict(more)]}],
                    "policy": {"kind": "uniform"} if seed % 2 else {"kind": "pct", "d": 3, "horizon": 6000},
                    "sched_seed": 100 + seed})
    return out


def shrink_candidates(cfg, decisions):
    ts = cfg["threads"]
    if len(ts) > 1:
        for i in range(len(ts)):
            c = copy.deepcopy(cfg)
            nm = c["threads"][i]["name"]
            del c["threads"][i]
            yield c, ([d for d in decisions if d != nm] if decisions else decisions)
    for i, t in enumerate(ts):
        if len(t["calls"]) > 1:
            for j in range(len(t["calls"])):
                c = copy.deepcopy(cfg)
                del c["threads"][i]["calls"][j]
                yield c, decisions
        for j, call in enumerate(t["calls"]):
            if call["config"]:
                c = copy.deepcopy(cfg)
                c["threads"][i]["calls"][j]["config"] = []
                yield c, decisions


def sample_of(cfg, res):
    return {"kind": "threads", "threads": [[t["name"], [(c.get("how", "new"), c["model"], c["config"], c["q"], c["fn"])
                                                        for c in t["calls"]]]
                                           for t in cfg["threads"]],
            "shared": cfg.get("shared"), "policy": cfg["policy"]["kind"], "steps": res.get("steps"),
            "violations": len(res["violations"])}
