r"""Twin of allpd.py whose only parameter has narrow limits: the same dispersity
settings describe a different (truncated) distribution here."""
from numpy import inf

name = "allpdlim"
title = "all parameters dispersible, narrow limits"
description = "1 + r*q"
category = "shape:sphere"
parameters = [
    ["r", "Ang", 10.0, [8, 12], "volume", "size"],
]
form_volume = """
    return r;
"""
Iq = """
    return 1.0 + r*q;
"""
