r"""C plugin whose parameters are all dispersible (the shape that can reach an
empty dispersity mesh: num_eval == 0)."""
from numpy import inf

name = "allpd"
title = "all parameters dispersible"
description = "1 + r*q"
category = "shape:sphere"
parameters = [
    ["r", "Ang", 30.0, [0, inf], "volume", "size"],
]
form_volume = """
    return r;
"""
Iq = """
    return 1.0 + r*q;
"""
