r"""Pure python plugin with two volume parameters and effective-radius modes
(used by the C11 history simulation so that PyKernel's shared parameter
vector and dispersity loop actually run)."""
import numpy as np
from numpy import inf, pi

name = "pyplug"
title = "python shell-like sphere"
description = "python plugin with volume parameters"
category = "shape:sphere"
parameters = [
    ["sld", "1e-6/Ang^2", 2.0, [-inf, inf], "sld", "contrast"],
    ["radius", "Ang", 40.0, [0, inf], "volume", "core radius"],
    ["thick", "Ang", 10.0, [0, inf], "volume", "shell thickness"],
]
radius_effective_modes = ["outer radius", "core radius"]


def form_volume(radius, thick):
    return 4.0/3.0*pi*(radius + thick)**3


def radius_effective(mode, radius, thick):
    return radius + thick if mode == 1 else radius


def Iq(q, sld, radius, thick):
    qr = q*(radius + thick)
    bes = 3.0*(np.sin(qr) - qr*np.cos(qr))/qr**3
    return 1.0e-4*(sld*form_volume(radius, thick)*bes)**2
Iq.vectorized = True
