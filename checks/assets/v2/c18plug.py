r"""second version of the tiny plugin (same file name, hence the same model id, other code)"""
from numpy import inf
name = "c18plug"
title = "tiny plugin"
description = "a*q + b"
category = "shape-independent"
parameters = [
    ["a", "", 3.0, [-inf, inf], "", "slope"],
    ["b", "", 5.0, [-inf, inf], "", "offset"],
]
Iq = """
    return 2.0*a*q + b + 1.0;
"""
