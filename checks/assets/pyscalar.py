r"""Pure python plugin whose I(q) functions are *not* vectorised (scalar q,
math module), with its own Iqxy: exercises the vectorisation wrappers that
sasmodels installs on the model definition the first time a kernel is made."""
from math import exp, sqrt
from numpy import inf

name = "pyscalar"
title = "scalar python model"
description = "guinier-like, scalar functions"
category = "shape-independent"
parameters = [
    ["rg", "Ang", 50.0, [0, inf], "volume", "radius of gyration"],
    ["amp", "", 3.0, [-inf, inf], "", "amplitude"],
]


def form_volume(rg):
    return rg**3


def Iq(q, rg, amp):
    return amp*exp(-(q*rg)**2/3.0)


def Iqxy(qx, qy, rg, amp):
    return amp*exp(-(qx*qx + qy*qy)*rg**2/3.0)*(1.0 + qx)
