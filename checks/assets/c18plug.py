r"""tiny plugin used by the build simulation"""
from numpy import inf
name = "c18plug"
title = "tiny plugin"
description = "a*q + b"
category = "shape-independent"
parameters = [
    ["a", "", 3.0, [-inf, inf], "", "slope"],
    ["b", "", 5.0, [-inf, inf], "", "offset"],
]
Iq = """
    return a*q + b;
"""
