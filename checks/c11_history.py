"""C11 - results do not depend on call history; inputs are not modified.

(a) histories: a long-lived *session* process (a real fork) executes a seeded
sequence of operations on a pool of long-lived objects; every evaluating
operation is compared byte for byte with the answer a *fresh* process gives to
the same request made first.  (b) caller threads: 2-3 threads evaluating
SasView-style models under the baton scheduler with line-level pre-emption in
sasview_model.py / kerneldll.py and a simulated calculation_lock.

See DESIGN.md section 6.
"""
import copy
import hashlib
import json
import os
import pickle
import random
import shutil

import numpy as np

from simkit import forksim
from simkit.baton import HarnessError
from simkit import ccmemo
from simkit.ccmemo import MemoSubprocess
from simkit.common import REPO, canon, scratch_root, tree_id
from simkit.prng import Streams

PROP = "C11"
G = {}
ASSETS = os.path.join(os.path.dirname(os.path.abspath(__file__)), "assets")

# ------------------------------------------------------------------ the pools

# Arrays are long-lived caller objects: one ndarray per name and per process,
# handed to every call that uses it (a caller evaluating on "its" q vector
# passes the same object again and again; a 2-D request may reuse the 1-D
# array as its qx).
QARRAYS = {
    "a3": [0.01, 0.1, 0.3],
    "a3b": [0.02, 0.15, 0.25],              # same length as a3, other values
    "a5": [0.005, 0.02, 0.08, 0.2, 0.4],
    "a17": list(np.logspace(-3, -0.3, 17)),
    "y3": [0.0, 0.05, -0.1],
    "x4": [0.05, 0.1, -0.05, 0.2], "y4": [0.0, 0.05, 0.1, -0.1],
    "x4b": [0.03, -0.12, 0.07, 0.18], "y4b": [0.02, 0.04, -0.09, 0.11],
    "x9": [x for x in (-0.1, 0.02, 0.15) for _ in range(3)],
    "y9": [y for _ in range(3) for y in (-0.08, 0.01, 0.12)],
}
QSETS = {
    "q3": ["a3"], "q3b": ["a3b"], "q5": ["a5"], "q17": ["a17"],
    "xy3": ["a3", "y3"],                     # qx is the very array used as 1-D q
    "xy4": ["x4", "y4"], "xy4b": ["x4b", "y4b"], "xy9": ["x9", "y9"],
}
_QCACHE = {}
Q1D = ["q3", "q3b", "q5", "q17"]
Q2D = ["xy3", "xy4", "xy4b", "xy9"]

MODELS = {
    "sphere": "sphere", "cylinder": "cylinder", "core_multi_shell": "core_multi_shell",
    "hardsphere": "hardsphere", "sphere@hardsphere": "sphere@hardsphere",
    "sphere@hayter_msa": "sphere@hayter_msa",
    "cylinder@hardsphere": "cylinder@hardsphere",       # a form factor with seven effective-radius modes
    "hayter_msa": "hayter_msa",
    "sphere+cylinder": "sphere+cylinder", "sphere*cylinder": "sphere*cylinder",
    # mixtures of mixtures, and a model that is a part of one of them
    "cylinder*sphere": "cylinder*sphere", "sphere*cylinder+cylinder*sphere": "sphere*cylinder+cylinder*sphere",
    "broad_peak": "broad_peak", "_spherepy": "_spherepy",
    "pyplug": os.path.join(ASSETS, "pyplug.py"), "allpd": os.path.join(ASSETS, "allpd.py"),
    "pyscalar": os.path.join(ASSETS, "pyscalar.py"),
    # twin of allpd with narrow limits on its parameter (directed family only, see DIRECTED_ONLY)
    "allpdlim": os.path.join(ASSETS, "allpdlim.py"),
    # a python form factor with a compiled structure factor: PyKernel and DllKernel under one ProductKernel
    "pyplug@hardsphere": os.path.join(ASSETS, "pyplug.py") + "@hardsphere",
}
DIRECTED_ONLY = {"allpdlim"}      # in no random history: the random pool is what the soaks validated
PY_MODELS = {"broad_peak", "_spherepy", "pyplug", "pyscalar"}
GENERIC = set()       # builtin models added to the pool in the thorough tier
FQ_MODELS = {"sphere", "cylinder", "core_multi_shell", "pyplug", "allpd", "_spherepy"}

PARS = {
    "sphere": {
        "def": {},
        "big": {"radius": 120.0, "scale": 0.5, "background": 0.1},
        "pd": {"radius_pd": 0.15, "radius_pd_n": 9},
        "pd140": {"radius_pd": 0.2, "radius_pd_n": 140, "radius_pd_type": "schulz"},
        "mag": {"sld_M0": 3.0, "sld_mtheta": 30.0, "up_frac_i": 0.2, "up_theta": 45.0, "radius": 60.0},
        "mode": {"radius": 70.0, "radius_effective_mode": 1, "radius_pd": 0.1, "radius_pd_n": 5},
        "empty": {"radius": -10.0, "radius_pd": 0.1, "radius_pd_n": 5},
        "bad": {"radiusx": 3.0},
    },
    "cylinder": {
        "def": {},
        "thin": {"radius": 8.0, "length": 600.0, "theta": 40.0, "phi": 10.0},
        "pd2": {"radius_pd": 0.1, "radius_pd_n": 8, "length_pd": 0.2, "length_pd_n": 14,
                "length_pd_type": "lognormal"},
        "pd4": {"radius_pd": 0.1, "radius_pd_n": 4, "length_pd": 0.1, "length_pd_n": 3,
                "theta_pd": 10.0, "theta_pd_n": 4, "phi_pd": 5.0, "phi_pd_n": 3, "theta": 50.0},
        "mag": {"sld_M0": 2.0, "sld_mphi": 60.0, "up_frac_f": 0.3, "theta": 70.0},
        "mode": {"radius_effective_mode": 3, "length_pd": 0.3, "length_pd_n": 6},
        "bad": {"lenght": 100.0},
    },
    "core_multi_shell": {
        "def": {"n": 2},
        "n4": {"n": 4, "thickness1": 15.0, "thickness3": 7.0, "sld2": 3.0},
        "pd": {"n": 3, "radius_pd": 0.1, "radius_pd_n": 6, "thickness2_pd": 0.2, "thickness2_pd_n": 5},
        "toomany": dict([("n", 6)] + [(k + "_pd", 0.1) for k in
                        ("radius", "thickness1", "thickness2", "thickness3", "thickness4", "thickness5")]
                        + [(k + "_pd_n", 2) for k in
                           ("radius", "thickness1", "thickness2", "thickness3", "thickness4", "thickness5")]),
    },
    "hardsphere": {
        "def": {},
        "vf": {"volfraction": 0.35, "radius_effective": 40.0},
    },
    "sphere@hardsphere": {
        "def": {},
        "pd": {"radius_pd": 0.1, "radius_pd_n": 6, "volfraction": 0.25},
        "beta": {"structure_factor_mode": 1, "radius_pd": 0.1, "radius_pd_n": 6},
        "reff": {"radius_effective_mode": 1, "radius_pd": 0.2, "radius_pd_n": 5, "radius": 35.0},
    },
    "cylinder@hardsphere": {
        "def": {},
        "pd": {"radius_pd": 0.1, "radius_pd_n": 4, "length_pd": 0.2, "length_pd_n": 5, "volfraction": 0.25},
        "m3": {"radius_effective_mode": 3, "radius": 25.0, "length": 300.0},
        "beta": {"structure_factor_mode": 1, "radius_effective_mode": 2, "length_pd": 0.1, "length_pd_n": 4},
    },
    "hayter_msa": {
        "def": {},
        "pd": {"radius_effective": 45.0, "radius_effective_pd": 0.2, "radius_effective_pd_n": 6},
        "vf": {"volfraction": 0.3, "charge": 40.0},
    },
    "sphere@hayter_msa": {
        # a structure factor whose own effective radius can be dispersed (mode 0: taken from S, not from P)
        "def": {},
        "m0": {"radius_effective_mode": 0, "radius_effective": 45.0},
        "m0pd": {"radius_effective_mode": 0, "radius_effective": 45.0, "radius_effective_pd": 0.2,
                 "radius_effective_pd_n": 6},
        "m0pd2": {"radius_effective_mode": 0, "radius_effective": 45.0, "radius_effective_pd": 0.4,
                  "radius_effective_pd_n": 9, "radius_effective_pd_type": "schulz"},
        # same mesh shapes as m0pd / m0pd2 but with the effective radius taken from P (mode 1, the default)
        "m1pd": {"radius_effective": 45.0, "radius_effective_pd": 0.2, "radius_effective_pd_n": 6},
        "m1pd2": {"radius_effective_mode": 1, "radius_effective": 45.0, "radius_effective_pd": 0.4,
                  "radius_effective_pd_n": 9, "radius_effective_pd_type": "schulz"},
        "ppd": {"radius_pd": 0.1, "radius_pd_n": 6, "volfraction": 0.15},
        "beta": {"structure_factor_mode": 1, "radius_pd": 0.15, "radius_pd_n": 5, "charge": 30.0},
    },
    "sphere+cylinder": {
        "def": {},
        "pd": {"A_radius_pd": 0.1, "A_radius_pd_n": 5, "B_length_pd": 0.1, "B_length_pd_n": 4,
               "A_scale": 0.3, "B_scale": 0.7},
    },
    "sphere*cylinder": {
        "def": {},
        "pd": {"A_radius_pd": 0.1, "A_radius_pd_n": 5, "B_length_pd": 0.1, "B_length_pd_n": 4},
        "other": {"A_radius": 30.0, "B_radius": 12.0, "B_length": 250.0, "background": 0.0},
    },
    "cylinder*sphere": {
        "def": {},
        "named": {"A_radius": 15.0, "A_length": 200.0, "B_radius": 40.0, "background": 0.01},
        "pd": {"A_radius_pd": 0.1, "A_radius_pd_n": 4, "B_radius_pd": 0.1, "B_radius_pd_n": 5},
    },
    "sphere*cylinder+cylinder*sphere": {
        "def": {},
        "named": {"A_radius": 30.0, "B_length": 150.0, "C_radius": 15.0, "C_length": 200.0, "D_radius": 40.0,
                  "AB_scale": 0.4, "CD_scale": 0.6},
        "pd": {"A_radius_pd": 0.1, "A_radius_pd_n": 4, "D_radius_pd": 0.1, "D_radius_pd_n": 5, "CD_scale": 0.5},
    },
    "broad_peak": {
        "def": {},
        "tiny": {"scale": 3e-310, "background": 0.0},
        "p2": {"peak_pos": 0.05, "width_exp": 3.0, "porod_scale": 2e-5},
    },
    "_spherepy": {
        "def": {},
        "tiny": {"scale": 3e-312, "background": 0.0, "radius": 20.0},
        "pd": {"radius_pd": 0.1, "radius_pd_n": 7, "radius": 35.0},
        "big": {"radius": 90.0},
    },
    "pyplug": {
        "def": {},
        "other": {"radius": 25.0, "thick": 4.0, "sld": 1.0},
        "pd": {"radius_pd": 0.1, "radius_pd_n": 5},
        "pd2": {"radius_pd": 0.1, "radius_pd_n": 5, "thick_pd": 0.2, "thick_pd_n": 4,
                "radius_effective_mode": 2},
        "mode1": {"radius_effective_mode": 1, "thick": 20.0},
    },
    "pyplug@hardsphere": {
        "def": {},
        "pd": {"radius_pd": 0.1, "radius_pd_n": 5, "volfraction": 0.3},
        "reff2": {"radius_effective_mode": 2, "thick_pd": 0.2, "thick_pd_n": 4},
        "beta": {"structure_factor_mode": 1, "radius_pd": 0.1, "radius_pd_n": 4},
    },
    "pyscalar": {
        "def": {},
        # results in the subnormal range (legal, if unusual): the process's floating-point
        # environment must be what a fresh process has
        "tiny": {"scale": 3e-310, "background": 0.0},
        "other": {"rg": 20.0, "amp": 1.5, "background": 0.0},
        "pd": {"rg_pd": 0.2, "rg_pd_n": 6},
    },
    "allpd": {
        "def": {},
        "r50": {"r": 50.0},
        "pd": {"r": 10.0, "r_pd": 0.1, "r_pd_n": 5},
        "empty": {"r": -10.0, "r_pd": 0.1, "r_pd_n": 5},
    },
    "allpdlim": {
        "def": {},
        # the same settings as allpd's "pd": three of the five points lie inside [8, 12]
        "pd": {"r": 10.0, "r_pd": 0.1, "r_pd_n": 5},
        "pd9": {"r": 10.0, "r_pd": 0.3, "r_pd_n": 9, "r_pd_type": "schulz"},
    },
}
# number of effective-radius modes of the form factor, for models where there is a choice
ER_MODES = {"cylinder": 7, "cylinder@hardsphere": 7, "pyplug": 2, "pyplug@hardsphere": 2, "core_multi_shell": 2}
PRODUCTS = {"sphere@hardsphere", "sphere@hayter_msa", "cylinder@hardsphere", "pyplug@hardsphere"}


def _add_control_variants():
    """Siblings that differ from a parameter set in one *control* parameter only
    (which effective radius the form factor reports, whether S is applied with
    the beta correction): state keyed on everything but the control value is
    then caught, on a live kernel, by the ordered pairs."""
    for model, sets in PARS.items():
        for key, pars in list(sets.items()):
            if key in ("bad", "toomany", "empty", "pd140") or "#" in key:
                continue
            n = ER_MODES.get(model, 0)
            if n >= 2:
                cur = int(pars.get("radius_effective_mode", 1))
                nxt = cur % n + 1 if cur >= 1 else 1
                sets[key + "#m"] = dict(pars, radius_effective_mode=nxt)
                if n >= 3:
                    sets[key + "#M"] = dict(pars, radius_effective_mode=nxt % n + 1)
            if model in PRODUCTS:
                sets[key + "#s"] = dict(pars, structure_factor_mode=1 - int(pars.get("structure_factor_mode", 0)))


def _add_variants():
    """For every dispersed parameter set add siblings with the *same mesh
    shape* that differ in exactly one aspect (width, distribution type,
    nsigma): state keyed by shape alone is then caught."""
    for model, sets in PARS.items():
        for key, pars in list(sets.items()):
            if key in ("bad", "toomany", "empty", "pd140") or "#" in key:
                continue
            widths = [k for k in pars if k.endswith("_pd")]
            if not widths:
                continue
            k0 = sorted(widths)[0]
            w = dict(pars)
            w[k0] = pars[k0] * 1.5
            sets[key + "#w"] = w
            t = dict(pars)
            t[k0 + "_type"] = "rectangle" if pars.get(k0 + "_type", "gaussian") != "rectangle" else "gaussian"
            sets[key + "#t"] = t
            n = dict(pars)
            n[k0 + "_nsigma"] = 2.0
            sets[key + "#n"] = n


_add_variants()
_add_control_variants()
CUTOFFS = [0.0, 0.0, 1e-5, 1e-3]
DATA_KINDS = ["perfect", "pinhole", "measured_nan", "slit", "2d", "2d_xres", "sesans", "sesans_tight"]
SV_MODELS = ["sphere", "cylinder", "core_multi_shell", "sphere@hardsphere", "sphere@hayter_msa", "hardsphere", "hayter_msa",
             "broad_peak", "pyscalar",
             "pyplug", "allpd"]
SV_SET = {
    "sphere": [("radius", 80.0), ("scale", 0.3), ("background", 0.05), ("sld", 2.0), ("sld_M0", 4.0)],
    "cylinder": [("radius", 12.0), ("length", 250.0), ("theta", 30.0), ("phi", 75.0), ("background", 0.0)],
    "core_multi_shell": [("radius", 45.0), ("thickness1", 12.0), ("sld1", 2.5)],
    "sphere@hardsphere": [("radius", 45.0), ("volfraction", 0.3), ("structure_factor_mode", 1),
                          ("radius_effective_mode", 1)],
    "hardsphere": [("volfraction", 0.1), ("radius_effective", 25.0)],
    "hayter_msa": [("volfraction", 0.1), ("radius_effective", 45.0), ("radius_effective.width", 0.2),
                   ("radius_effective.npts", 6), ("charge", 30.0)],
    "sphere@hayter_msa": [("radius_effective_mode", 0), ("radius_effective", 45.0), ("radius_effective.width", 0.2),
                          ("radius_effective.npts", 6), ("charge", 30.0), ("volfraction", 0.1)],
    "broad_peak": [("peak_pos", 0.08), ("porod_exp", 2.5)],
    "pyplug": [("radius", 22.0), ("thick", 3.0)],
    "pyscalar": [("rg", 30.0), ("amp", 2.0), ("rg.width", 0.2), ("rg.npts", 5)],
    "allpd": [("r", 12.0), ("r", -10.0)],
}
SV_ARRAY = {
    "sphere": [("radius", [40.0, 50.0, 60.0, 75.0], [3.0, 11.0, 7.0, 2.0])],
    "cylinder": [("length", [300.0, 400.0, 500.0], [1.0, 4.0, 2.0]), ("radius", [15.0, 20.0, 30.0], [5.0, 3.0, 1.0])],
    "pyplug": [("radius", [30.0, 40.0, 55.0], [2.0, 5.0, 1.0])],
    "allpd": [("r", [10.0, 20.0, 40.0, 80.0], [1.0, 3.0, 3.0, 1.0])],
    "sphere@hardsphere": [("radius", [40.0, 50.0, 65.0], [1.0, 2.0, 1.0])],
}
# dispersity settings written straight through setParam("par.width", ...), the
# way the SasView GUI does it (no set_dispersion call in between)
for _m, _p in (("sphere", "radius"), ("cylinder", "radius"), ("cylinder", "length"),
               ("core_multi_shell", "radius"), ("sphere@hardsphere", "radius"),
               ("pyplug", "radius"), ("pyplug", "thick"), ("allpd", "r")):
    SV_SET[_m] = SV_SET[_m] + [(_p + ".width", 0.15), (_p + ".npts", 7), (_p + ".width", 0.3),
                               (_p + ".nsigmas", 2.0)]
# ... and the distribution *type* switched the same way (what is left of the previous
# disperser's settings - a uniform one has no nsigmas - then takes the new type's defaults)
for _m, _p in (("sphere", "radius"), ("cylinder", "length"), ("pyplug", "radius")):
    SV_SET[_m] = SV_SET[_m] + [(_p + ".type", "gaussian"), (_p + ".type", "rectangle")]
SV_DISP = {
    "sphere": [("radius", "gaussian", 7, 0.1), ("radius", "schulz", 120, 0.2), ("radius", "uniform", 5, 0.2)],
    "cylinder": [("radius", "gaussian", 5, 0.1), ("length", "lognormal", 9, 0.2), ("theta", "gaussian", 4, 8.0),
                 ("length", "uniform", 6, 0.3)],
    "core_multi_shell": [("radius", "gaussian", 5, 0.1), ("thickness1", "gaussian", 4, 0.2)],
    "sphere@hardsphere": [("radius", "gaussian", 6, 0.15)],
    "pyplug": [("radius", "gaussian", 5, 0.1), ("thick", "gaussian", 4, 0.2)],
    "allpd": [("r", "gaussian", 5, 0.1)],
}


# ----------------------------------------------------------------------- setup

def prepare(tier):
    import warnings
    warnings.filterwarnings("ignore")
    import sasmodels  # noqa: F401
    # pristine parent: import everything, build and dlopen nothing
    from sasmodels import (core, custom, data, details, direct_model, generate, kerneldll,  # noqa: F401
                           kernelpy, mixture, product, resolution, resolution2d, sasview_model,
                           sesans, weights)
    import sasmodels.models  # noqa: F401
    for name in MODELS.values():
        for part in name.replace("+", "@").replace("*", "@").split("@"):
            if not part.endswith(".py"):
                __import__("sasmodels.models." + part)
    if tier == "thorough":
        # every builtin model joins the pool with generic parameter sets
        for name in core.list_models():
            if name in MODELS:
                continue
            info = core.load_model_info(name)
            MODELS[name] = name
            PARS[name] = {"def": {}, "sb": {"scale": 0.5, "background": 0.2}}
            pd = sorted(p_.name for p_ in info.parameters.call_parameters[2:2 + info.parameters.npars]
                        if p_.polydisperse and p_.type not in ("orientation", "magnetic"))
            if pd:
                # (some builtin models cost seconds per mesh point: keep the generic meshes tiny)
                PARS[name]["pd"] = {pd[0] + "_pd": 0.1, pd[0] + "_pd_n": 3}
            GENERIC.add(name)
            if callable(info.Iq):
                PY_MODELS.add(name)
            elif info.have_Fq:
                FQ_MODELS.add(name)
    root = scratch_root()
    G["root"] = root
    G["memo"] = os.path.join(root, "ccmemo")
    G["fresh_dir"] = os.path.join(root, "fresh")
    os.makedirs(G["fresh_dir"], exist_ok=True)
    G["fresh_cache"] = os.path.join(root, "fresh_cache")
    os.makedirs(G["fresh_cache"], exist_ok=True)
    files = [os.path.realpath(m.__file__) for m in (direct_model, kerneldll, kernelpy, sasview_model, details)]
    G["tree"] = tree_id(files)
    G["run_counter"] = 0
    G["fresh_memo"] = {}
    G["trace_files"] = [os.path.realpath(sasview_model.__file__), os.path.realpath(kerneldll.__file__)]


def tree():
    return G["tree"]


# ------------------------------------------------------------ child-side code

def _ser(x):
    if x is None:
        return None
    if isinstance(x, dict):
        return [[str(k), _ser(v)] for k, v in sorted(x.items(), key=lambda kv: str(kv[0]))]
    if isinstance(x, str):
        return ("str", (), x.encode())
    if isinstance(x, (tuple, list)):
        return [_ser(v) for v in x]
    a = np.asarray(x)
    return (str(a.dtype), tuple(a.shape), a.tobytes())


def _snap(obj):
    """Byte-level snapshot of a caller-supplied argument."""
    if isinstance(obj, dict):
        return ("dict", [(k, _snap(v)) for k, v in obj.items()])
    if isinstance(obj, (list, tuple)):
        return ("seq", [_snap(v) for v in obj])
    if isinstance(obj, np.ndarray):
        return ("nd", str(obj.dtype), obj.shape, obj.tobytes())
    if hasattr(obj, "__dict__") and not callable(obj):
        return ("obj", type(obj).__name__,
                [(k, _snap(v)) for k, v in sorted(vars(obj).items())
                 if isinstance(v, (np.ndarray, float, int, str, tuple, list, type(None)))])
    return ("val", repr(obj))


def _q(qkey):
    owner = os.getpid()
    if _QCACHE.get("owner") != owner:        # a forked process gets its own arrays
        _QCACHE.clear()
        _QCACHE["owner"] = owner
    arrays = [_QCACHE.setdefault(name, np.array(QARRAYS[name], dtype="d")) for name in QSETS[qkey]]
    # the list that holds them is the caller's too, and is handed to make_kernel again and again
    return _QCACHE.setdefault("list:" + qkey, arrays)


def _make_data(kind):
    """Data objects are long-lived caller objects too: one per kind and process,
    so two calculators may well be built on the same data object."""
    owner = os.getpid()
    if _DCACHE.get("owner") != owner:
        _DCACHE.clear()
        _DCACHE["owner"] = owner
    if kind not in _DCACHE:
        _DCACHE[kind] = _new_data(kind)
    return _DCACHE[kind]


_DCACHE = {}
_ACACHE = {}
_PCACHE = {}


def _new_data(kind):
    from sasmodels import data as sdata
    q = np.array(QARRAYS["a17"])       # (each data object owns its arrays, as loaded data would)
    if kind == "perfect":
        return sdata.empty_data1D(q)
    if kind == "pinhole":
        return sdata.empty_data1D(q, resolution=0.05)
    if kind == "measured_nan":
        # measured data (y, dy present) in which one point went bad after loading: a NaN in y
        # that the mask, computed when the object was made, does not know about
        d = sdata.Data1D(q, 100.0 / (1.0 + (40.0 * q) ** 2), dx=0.05 * q, dy=np.full_like(q, 0.1))
        d.y[7] = np.nan
        return d
    if kind == "slit":
        d = sdata.empty_data1D(q)
        d.dx = None
        d.dxl = np.full_like(q, 0.02)
        d.dxw = np.full_like(q, 0.002)
        return d
    if kind == "2d":
        qx = np.linspace(-0.12, 0.12, 5)
        return sdata.empty_data2D(qx, qx, resolution=0.02)
    if kind == "2d_xres":
        # every pixel selected (no origin, nothing masked), resolution along x only: dqy is all zeros
        qx = np.linspace(0.02, 0.12, 4)
        d = sdata.empty_data2D(qx, qx, resolution=0.03)
        d.dqy_data = np.zeros_like(d.dqy_data)
        return d
    if kind == "sesans":
        return sdata.empty_sesans(np.linspace(200.0, 3000.0, 7))
    if kind == "sesans_tight":
        # the same spin-echo lengths with a small acceptance angle, so that part of the Hankel matrix is masked
        return sdata.empty_sesans(np.linspace(200.0, 3000.0, 7), wavelength=5.0, zacceptance=(0.0005, "radians"))
    raise ValueError(kind)


def _sv_class(state, name):
    from sasmodels import core, sasview_model
    classes = state.setdefault("sv_classes", {})
    if name not in classes:
        ref = MODELS[name]
        if ref.endswith(".py"):
            classes[name] = sasview_model.load_custom_model(ref)
        else:
            cls = sasview_model.make_model_from_info(core.load_model_info(ref))
            sasview_model.MODELS[cls.name] = cls
            classes[name] = cls
    return classes[name]


def _sv_apply(inst, cfgop):
    if cfgop[0] == "set":
        inst.setParam(cfgop[1], cfgop[2])
    elif cfgop[0] == "array":
        # a user-tabulated distribution: the arrays belong to the caller
        _, par, values, wts = cfgop
        from sasmodels import weights
        # (one pair of arrays per tabulated distribution and process: two
        # instances given "the same table" get the same caller objects)
        owner = os.getpid()
        if _ACACHE.get("owner") != owner:
            _ACACHE.clear()
            _ACACHE["owner"] = owner
        v, w = _ACACHE.setdefault((par, tuple(values), tuple(wts)), (np.array(values, "d"), np.array(wts, "d")))
        disp = weights.ArrayDispersion()
        disp.set_weights(v, w)
        inst.set_dispersion(par, disp)
        held = getattr(inst, "_verif_caller_arrays", [])
        inst._verif_caller_arrays = held + [v, w]
    elif cfgop[0] == "disp":
        _, par, dtype, npts, width = cfgop
        from sasmodels import weights
        # the disperser is a caller-owned object too: one per distribution type and
        # process, handed to every instance that wants that distribution
        owner = os.getpid()
        if _PCACHE.get("owner") != owner:
            _PCACHE.clear()
            _PCACHE["owner"] = owner
        disp = _PCACHE.setdefault(dtype, weights.MODELS[dtype]())
        inst.set_dispersion(par, disp)
        inst.setParam(par + ".npts", npts)
        inst.setParam(par + ".width", width)


def _sv_new(state, name):
    if name.startswith("mult:"):
        # a product built the way SasView does it: from a form-factor instance and a
        # structure-factor instance, i.e. from the model definitions those classes hold
        from sasmodels import sasview_model
        pname, sname = name[5:].split("|")
        return sasview_model.MultiplicationModel(_sv_new(state, pname), _sv_new(state, sname))
    cls = _sv_class(state, name)
    if name == "core_multi_shell":
        return cls(multiplicity=4)
    return cls()


def _evaluate(state, fn, args_for_snapshot):
    """Run fn(); report result or exception type, and whether the caller's
    argument objects were left byte-identical."""
    before = [_snap(a) for a in args_for_snapshot]
    raw = None
    try:
        raw = fn()
        out = ("ok", _ser(raw))
    except Exception as exc:
        out = ("exc", type(exc).__name__, str(exc)[:200])
    after = [_snap(a) for a in args_for_snapshot]
    changed = [i for i, (b, a) in enumerate(zip(before, after)) if b != a]
    detail = None
    if changed:
        i = changed[0]
        detail = "argument %d changed: before %s after %s" % (i, str(before[i])[:300], str(after[i])[:300])
    # ... and so were all the *other* objects the caller owns in this process
    # (arrays, dictionaries and data sets handed to earlier calls): a library that
    # kept a reference must not write through it later
    if detail is None:
        for label, obj, pristine in _caller_objects(state):
            if _snap(obj) != pristine:
                detail = "caller-owned %s, not an argument of this call, is no longer what the caller made it (found after this call)" % label
                break
    # results handed to the caller earlier must not change under later calls
    held = state.setdefault("held", [])
    overwritten = None
    for seq, obj, ser in held:
        if _ser(obj) != ser:
            overwritten = "a result returned %d evaluations earlier was modified by this call" % (state.get("nev", 0) - seq)
            break
    state["nev"] = state.get("nev", 0) + 1
    if raw is not None:
        held.append((state["nev"] - 1, raw, out[1]))
        del held[:-4]
    return {"result": out, "args_changed": detail, "overwritten": overwritten}


def _caller_objects(state):
    """Every long-lived object the simulated caller owns in this process, with
    the snapshot taken when it was created."""
    reg = state.setdefault("caller_registry", {})
    found = []
    for name, arr in _QCACHE.items():
        if name.startswith("list:"):
            found.append(("q vector list %s" % name[5:], arr))
        elif name != "owner":
            found.append(("q array %s" % name, arr))
    for kind, data in _DCACHE.items():
        if kind != "owner":
            found.append(("data object %s" % kind, data))
    for key, pair in _ACACHE.items():
        if key != "owner":
            found.append(("distribution table values %s" % key[0], pair[0]))
            found.append(("distribution table weights %s" % key[0], pair[1]))
    for dtype_, disp in _PCACHE.items():
        if dtype_ != "owner":
            found.append(("disperser object %s" % dtype_, disp))
    for (model, key), d in state.get("pars", {}).items():
        found.append(("parameter dict %s/%s" % (model, key), d))
    out = []
    for label, obj in found:
        if id(obj) not in reg:
            if label.startswith("parameter dict"):
                model, key = label[len("parameter dict "):].split("/", 1)
                reg[id(obj)] = _snap(dict(PARS[model][key]))
            elif label.startswith("q array"):
                reg[id(obj)] = _snap(np.array(QARRAYS[label.split()[-1]], dtype="d"))
            elif label.startswith("q vector list"):
                reg[id(obj)] = _snap([np.array(QARRAYS[n_], dtype="d") for n_ in QSETS[label.split()[-1]]])
            else:
                reg[id(obj)] = _snap(obj)
        out.append((label, obj, reg[id(obj)]))
    return out


def _pars_obj(state, model, key):
    """One dict object per parameter set per process, reused across calls the
    way a caller holding on to its dict would."""
    d = state.setdefault("pars", {})
    if (model, key) not in d:
        d[(model, key)] = dict(PARS[model][key])
    return d[(model, key)]


def _kernel_fn(kernel, which, pars, cutoff, mono):
    from sasmodels import direct_model
    if which == "Iq":
        return lambda: direct_model.call_kernel(kernel, pars, cutoff=cutoff, mono=mono)
    if which == "Fq":
        return lambda: direct_model.call_Fq(kernel, pars, cutoff=cutoff, mono=mono)
    if which == "IqR":
        # composite kernels: the value and the lazily evaluated intermediates
        def both():
            y = direct_model.call_kernel(kernel, pars, cutoff=cutoff, mono=mono)
            lazy = getattr(kernel, "results", None)
            return [y, lazy() if callable(lazy) else None]
        return both
    raise ValueError(which)


def child_init(cache_dir):
    def init(state):
        import sys
        sys.dont_write_bytecode = True
        from sasmodels import kerneldll
        kerneldll.SAS_DLL_PATH = cache_dir
        os.makedirs(cache_dir, exist_ok=True)
        ccmemo.install(kerneldll, MemoSubprocess(G["memo"]))
        state["objs"] = {}
    return init


def eval_request(state, req):
    """The same request made first in a fresh process."""
    from sasmodels import core, direct_model
    kind = req["kind"]
    if kind == "kernel":
        model = core.load_model(MODELS[req["model"]], dtype=req["dtype"], platform="dll")
        qv = _q(req["q"])
        kernel = model.make_kernel(qv)
        pars = dict(PARS[req["model"]][req["pars"]])
        fn = _kernel_fn(kernel, req["fn"], pars, req["cutoff"], req["mono"])
        return _evaluate(state, fn, [pars] + qv)
    if kind == "direct":
        model = core.load_model(MODELS[req["model"]], dtype=req["dtype"], platform="dll")
        data = _make_data(req["data"])
        calc = direct_model.DirectModel(data, model, cutoff=req["cutoff"])
        pars = dict(PARS[req["model"]][req["pars"]])
        return _evaluate(state, lambda: calc(**pars), [pars, data])
    if kind == "conv":
        return _conv_eval(state, req["model"], req["fnc"], req["q"], req["pars"], req["res"])
    if kind == "sv":
        try:
            inst = _sv_new(state, req["model"])
            for c in req["config"]:
                _sv_apply(inst, c)
        except Exception as exc:
            # building or configuring the instance is refused: that is the request's (legal) outcome
            return {"result": ("exc", type(exc).__name__, str(exc)[:200]), "args_changed": None, "overwritten": None}
        return _sv_eval(state, inst, req["q"], req["fn"])
    raise ValueError(kind)


def _conv_eval(state, model, fnc, qkey, parkey, res):
    """The one-line convenience interface direct_model.Iq / Iqxy."""
    from sasmodels import direct_model
    qv = _q(qkey)
    pars = _pars_obj(state, model, parkey)
    if fnc == "Iq":
        kw = {}
        if res == "dq":
            kw["dq"] = 0.05 * qv[0]
        elif res == "slit":
            kw["ql"], kw["qw"] = 0.02, 0.002
        extra = list(kw.values())
        return _evaluate(state, lambda: direct_model.Iq(MODELS[model], qv[0], **dict(kw, **pars)),
                         [pars] + qv + [e for e in extra if isinstance(e, np.ndarray)])
    return _evaluate(state, lambda: direct_model.Iqxy(MODELS[model], qv[0], qv[1], **pars), [pars] + qv)


def _sv_eval(state, inst, qkey, fn):
    qv = _q(qkey)
    snap = qv + list(getattr(inst, "_verif_caller_arrays", []))
    if fn == "evalDistribution":
        arg = qv[0] if len(qv) == 1 else qv
        return _evaluate(state, lambda: inst.evalDistribution(arg), snap)
    if fn == "calculate_Iq":
        return _evaluate(state, lambda: inst.calculate_Iq(*qv)[0], snap)
    if fn == "composition":
        return _evaluate(state, lambda: inst.calc_composition_models(qv[0]), snap)
    if fn == "run":
        return _evaluate(state, lambda: inst.run(float(qv[0][1])), snap)
    if fn == "runXY":
        return _evaluate(state, lambda: inst.runXY([float(qv[0][0]), float(qv[0][1])]), snap)
    raise ValueError(fn)


def child_handler(state, cmd):
    if cmd[0] == "request":
        return eval_request(state, cmd[1])
    op = cmd[1]
    objs = state["objs"]
    from sasmodels import core, direct_model, sasview_model
    kind = op["op"]
    note = None
    try:
        if kind == "load":
            objs[op["id"]] = core.load_model(MODELS[op["model"]], dtype=op["dtype"], platform="dll")
        elif kind == "make_kernel":
            qv = _q(op["q"])
            before = [_snap(a) for a in qv]
            objs[op["id"]] = (objs[op["m"]].make_kernel(qv), qv)
            if [_snap(a) for a in qv] != before:
                return {"state_op": True, "raised": None,
                        "args_changed": "make_kernel modified the caller's q arrays"}
        elif kind == "call":
            kernel, qv = objs[op["k"]]
            pars = _pars_obj(state, op["model"], op["pars"])
            fn = _kernel_fn(kernel, op["fn"], pars, op["cutoff"], op["mono"])
            return _evaluate(state, fn, [pars] + qv)
        elif kind == "release_kernel":
            objs[op["k"]][0].release()
        elif kind == "release_model":
            objs[op["m"]].release()
        elif kind == "forget":
            # the caller drops its last reference: destructors run now
            import gc
            objs.pop(op["x"], None)
            gc.collect()
        elif kind == "direct":
            data = _make_data(op["data"])
            before = _snap(data)
            objs[op["id"]] = (direct_model.DirectModel(data, objs[op["m"]], cutoff=op["cutoff"]), data)
            if _snap(data) != before:
                return {"state_op": True, "raised": None,
                        "args_changed": "DirectModel() modified the caller's data object"}
        elif kind == "direct_cutoff":
            # the calculator's cutoff is a public attribute that fitting scripts assign to
            calc, data = objs[op["d"]]
            calc.cutoff = op["cutoff"]
        elif kind == "direct_call":
            calc, data = objs[op["d"]]
            pars = _pars_obj(state, op["model"], op["pars"])
            return _evaluate(state, lambda: calc(**pars), [pars, data])
        elif kind == "conv":
            return _conv_eval(state, op["model"], op["fnc"], op["q"], op["pars"], op["res"])
        elif kind == "sv_reload":
            # what SasView does when the plugin list is refreshed
            state.setdefault("sv_classes", {})[op["model"]] = sasview_model.load_custom_model(MODELS[op["model"]])
        elif kind == "sv_new":
            objs[op["id"]] = _sv_new(state, op["model"])
        elif kind == "sv_set":
            _sv_apply(objs[op["s"]], ("set", op["name"], op["value"]))
        elif kind == "sv_disp":
            _sv_apply(objs[op["s"]], ("disp", op["par"], op["type"], op["npts"], op["width"]))
        elif kind == "sv_array":
            _sv_apply(objs[op["s"]], ("array", op["par"], op["values"], op["weights"]))
        elif kind == "sv_mult":
            objs[op["id"]] = sasview_model.MultiplicationModel(objs[op["p"]], objs[op["s"]])
        elif kind == "sv_clone":
            objs[op["id"]] = objs[op["s"]].clone()
        elif kind == "sv_eval":
            return _sv_eval(state, objs[op["s"]], op["q"], op["fn"])
        elif kind == "reset_env":
            sasview_model.reset_environment()
        elif kind == "wipe_cache":
            from sasmodels import kerneldll
            for name in sorted(os.listdir(kerneldll.SAS_DLL_PATH)):
                p = os.path.join(kerneldll.SAS_DLL_PATH, name)
                shutil.rmtree(p, ignore_errors=True) if os.path.isdir(p) else os.unlink(p)
        else:
            raise HarnessError("unknown op %r" % (op,))
    except HarnessError:
        raise
    except Exception as exc:
        note = "%s: %s" % (type(exc).__name__, str(exc)[:200])
    return {"state_op": True, "raised": note}


# --------------------------------------------------------------- parent side

def request_of(op, objs):
    """The self-contained request an evaluating operation stands for."""
    kind = op["op"]
    if kind == "call":
        k = objs[op["k"]]
        m = objs[k["m"]]
        return {"kind": "kernel", "model": m["model"], "dtype": m["dtype"], "q": k["q"], "fn": op["fn"],
                "pars": op["pars"], "cutoff": op["cutoff"], "mono": op["mono"]}
    if kind == "direct_call":
        d = objs[op["d"]]
        m = objs[d["m"]]
        return {"kind": "direct", "model": m["model"], "dtype": m["dtype"], "data": d["data"],
                "pars": op["pars"], "cutoff": d["cutoff"]}
    if kind == "conv":
        return {"kind": "conv", "model": op["model"], "fnc": op["fnc"], "q": op["q"], "pars": op["pars"],
                "res": op["res"]}
    if kind == "sv_eval":
        s = objs[op["s"]]
        return {"kind": "sv", "model": s["model"], "config": [list(c) for c in s["config"]],
                "q": op["q"], "fn": op["fn"]}
    raise ValueError(kind)


def fresh_answer(req, recheck_rng=None, stats=None):
    """Answer of a fresh one-shot process, memoised by request (requests come
    from finite pools).  A fraction of memo hits is recomputed to confirm that
    the fresh answer is itself a function of the request."""
    key = hashlib.sha256(json.dumps(req, sort_keys=True).encode()).hexdigest()
    memo = G["fresh_memo"]
    path = os.path.join(G["fresh_dir"], key + ".pkl")
    hit = memo.get(key)
    if hit is None and os.path.exists(path):
        try:
            with open(path, "rb") as fid:
                hit = memo[key] = pickle.load(fid)
        except Exception:
            hit = None
    if hit is not None and not (recheck_rng is not None and recheck_rng.random() < 0.02):
        if stats is not None:
            stats["fresh_memo_hit"] = stats.get("fresh_memo_hit", 0) + 1
        return hit, None
    status, payload = forksim.fresh_call(child_handler, ("request", req), child_init(G["fresh_cache"]))
    if status != "ok":
        payload = {"result": ("died", payload), "args_changed": None}
    if stats is not None:
        stats["fresh_process_run"] = stats.get("fresh_process_run", 0) + 1
    unstable = None
    if hit is not None and hit["result"] != payload["result"]:
        unstable = (hit, payload)
    if hit is None:
        memo[key] = payload
        tmp = "%s.%d.tmp" % (path, os.getpid())
        with open(tmp, "wb") as fid:
            pickle.dump(payload, fid)
        os.replace(tmp, path)
    return (hit or payload), unstable


def _short(res):
    r = res["result"]
    if r[0] == "ok":
        def first(x):
            if x is None:
                return None
            if isinstance(x, str):
                return x
            if isinstance(x, list):
                return [first(v) for v in x]
            dtype, shape, data = x
            if dtype == "str":
                return data.decode()
            a = np.frombuffer(data, dtype=dtype)
            return [float(v) for v in a[:3]]
        return ["ok", first(r[1])]
    return list(r[:2])


def run_history(cfg, keep_events=False):
    G["run_counter"] += 1
    run_dir = os.path.join(G["root"], "c11-w%d-r%d" % (os.getpid(), G["run_counter"]))
    os.makedirs(run_dir)
    events, violations, probes, fired = [], [], {}, {}
    harness_error = None
    rng = random.Random(cfg.get("recheck_seed", 0))

    def probe(name):
        probes[name] = probes.get(name, 0) + 1

    objs = {}
    forgotten = set()
    session = None
    last_on = {}          # object id -> last request evaluated on it
    evaluated = 0
    nontrivial = False
    failed_before = set()
    try:
        session = forksim.Session(child_handler, child_init(os.path.join(run_dir, "cache")))
        for i, op in enumerate(cfg["ops"]):
            kind = op["op"]
            # ---- bookkeeping of what each object is ----
            if kind == "load":
                objs[op["id"]] = {"type": "model", "model": op["model"], "dtype": op["dtype"]}
            elif kind == "make_kernel":
                if op["m"] not in objs:
                    continue
                objs[op["id"]] = {"type": "kernel", "m": op["m"], "q": op["q"]}
            elif kind == "direct":
                if op["m"] not in objs:
                    continue
                objs[op["id"]] = {"type": "direct", "m": op["m"], "data": op["data"], "cutoff": op["cutoff"]}
            elif kind == "direct_cutoff":
                if op["d"] not in objs:
                    continue
                objs[op["d"]] = dict(objs[op["d"]], cutoff=op["cutoff"])
                probe("cutoff_reassigned_on_live_calculator")
            elif kind == "sv_new":
                objs[op["id"]] = {"type": "sv", "model": op["model"], "config": []}
            elif kind == "sv_mult":
                if op["p"] not in objs or op["s"] not in objs:
                    continue
                objs[op["id"]] = {"type": "sv", "config": [],
                                  "model": "mult:%s|%s" % (objs[op["p"]]["model"], objs[op["s"]]["model"])}
                probe("product_built_from_two_instances")
            elif kind == "sv_clone":
                if op["s"] not in objs:
                    continue
                objs[op["id"]] = {"type": "sv", "model": objs[op["s"]]["model"],
                                  "config": list(objs[op["s"]]["config"])}
                if objs[op["s"]]["config"]:
                    probe("clone_after_setParam")
            elif kind == "forget":
                if op["x"] not in objs:
                    continue
                if op["x"] in forgotten:
                    continue
                session_forget = objs[op["x"]]         # (its description stays: kernels made from a
                forgotten.add(op["x"])                 #  forgotten model still need it for their requests)
                fired["forget"] = fired.get("forget", 0) + 1
                status, payload = session.call(("op", op))
                if status == "died":
                    violations.append({"inv": "H1", "op": i, "kind": kind,
                                       "detail": "the process died (wait status %r) when the caller dropped %s"
                                                 % (payload, session_forget.get("type"))})
                    session = None
                    break
                events.append([i, kind, op["x"]])
                continue
            elif kind in ("sv_set", "sv_disp", "sv_array"):
                if op["s"] not in objs:
                    continue
                c = ("set", op["name"], op["value"]) if kind == "sv_set" else \
                    ("array", op["par"], op["values"], op["weights"]) if kind == "sv_array" else \
                    ("disp", op["par"], op["type"], op["npts"], op["width"])
                objs[op["s"]]["config"].append(c)
                if kind == "sv_array":
                    probe("array_distribution_set")
            ref = op.get("k") or op.get("d") or op.get("s") or op.get("m")
            if ref is not None and (ref not in objs or ref in forgotten):
                continue              # its creator was dropped by minimisation, or the caller forgot it
            if kind == "call" and objs[op["k"]]["m"] not in objs:
                continue
            if kind in ("release_kernel", "release_model", "wipe_cache", "reset_env", "sv_reload"):
                fired[kind] = fired.get(kind, 0) + 1
            status, payload = session.call(("op", op))
            if status == "died":
                violations.append({"inv": "H1", "op": i, "kind": kind,
                                   "detail": "the process died (wait status %r) executing %s" % (payload, kind)})
                session = None
                break
            if payload.get("state_op") and payload.get("raised") and kind in ("sv_set", "sv_disp", "sv_array"):
                # refused configuration: what (if anything) was applied is unknown, so this
                # instance is not evaluated any more (its clones made earlier are unaffected)
                objs.pop(op["s"], None)
                probe("instance_retired_after_refused_configuration")
            if payload.get("state_op"):
                if payload.get("args_changed"):
                    violations.append({"inv": "H2", "op": i, "kind": kind, "model": op.get("model"),
                                       "detail": payload["args_changed"]})
                    break
                events.append([i, kind, payload.get("raised")])
                if payload.get("raised"):
                    probe("state_op_raised")
                continue
            # ---- an evaluating operation ----
            req = request_of(op, objs)
            evaluated += 1
            target = op.get("k") or op.get("d") or op.get("s") or ("conv:" + op.get("model", ""))
            prev = last_on.get(target)
            if prev is not None:
                nontrivial = True
                if prev != req:
                    probe("same_object_other_request")
                    if prev.get("pars") != req.get("pars"):
                        probe("same_kernel_other_pars")
                    pp, cp = prev.get("pars"), req.get("pars")
                    if pp and cp and pp.split("#")[0] == cp.split("#")[0] and pp != cp:
                        probe("same_mesh_shape_one_aspect_changed")
                        if all(x.split("#")[1:] in ([], ["m"], ["M"], ["s"]) for x in (pp, cp)):
                            probe("only_control_parameter_changed")
                    if pp and cp and ("pd" in pp or "empty" in pp) and cp in ("def", "big", "thin"):
                        probe("mono_after_poly_same_object")
                    if pp and cp and (pp == "mag") != (cp == "mag"):
                        probe("magnetic_toggle_same_object")
                    if cp == "empty" and pp != "empty":
                        probe("empty_mesh_after_nonempty")
                else:
                    probe("identical_request_repeated")
            if target in failed_before:
                probe("eval_after_failed_eval")
            if req.get("model") in PY_MODELS and prev is not None:
                probe("py_kernel_second_call")
            if req.get("fn") == "Fq" and "mode" in str(req.get("pars")):
                probe("callFq_with_mode_key")
            fresh, unstable = fresh_answer(req, rng, probes)
            events.append([i, kind, req, _short(payload), _short(fresh)])
            if payload["result"][0] == "exc":
                failed_before.add(target)
                fired["legal_failing_request"] = fired.get("legal_failing_request", 0) + 1
            if unstable is not None:
                violations.append({"inv": "H0", "op": i, "kind": kind, "model": req.get("model"), "pars": req.get("pars"),
                                   "detail": "two fresh processes gave different answers to the same request %s: %s vs %s"
                                             % (json.dumps(req, sort_keys=True), _short(unstable[0]), _short(unstable[1]))})
                break
            if payload.get("overwritten"):
                violations.append({"inv": "H4", "op": i, "kind": kind, "model": req.get("model"), "pars": req.get("pars"),
                                   "fn": req.get("fn"), "detail": payload["overwritten"]})
                break
            if payload["args_changed"]:
                violations.append({"inv": "H2", "op": i, "kind": kind, "model": req.get("model"), "pars": req.get("pars"),
                                   "fn": req.get("fn"),
                                   "detail": "caller's argument modified by %s %s: %s" %
                                             (kind, req.get("fn", ""), payload["args_changed"])})
                break
            sr, fr = payload["result"], fresh["result"]
            same = (sr == fr) if sr[0] == "ok" and fr[0] == "ok" else (sr[0] == fr[0] and sr[1] == fr[1])
            if not same:
                violations.append({"inv": "H1", "op": i, "kind": kind, "model": req.get("model"), "pars": req.get("pars"),
                                   "fn": req.get("fn"), "after": (prev or {}).get("pars"),
                                   "detail": "request %s returned %s after this history but %s in a fresh process"
                                             % (json.dumps(req, sort_keys=True), _short(payload), _short(fresh))})
                break
            last_on[target] = req
    except HarnessError as exc:
        harness_error = str(exc)
    finally:
        if session is not None:
            session.close()
        shutil.rmtree(run_dir, ignore_errors=True)
    if len({o["model"] for o in objs.values() if o["type"] in ("model", "sv")}) > 1:
        probe("two_models_share_process")
    h = hashlib.sha256()
    h.update(json.dumps(cfg, sort_keys=True, default=str).encode())
    h.update(json.dumps(events, sort_keys=True, default=str).encode())
    res = {"digest": h.hexdigest(), "shape": None, "steps": len(cfg["ops"]), "fired": fired, "probes": probes,
           "violations": violations, "harness_error": harness_error, "nontrivial": nontrivial, "decisions": None,
           "extra": {"evaluated": evaluated}}
    if keep_events:
        res["events"] = events
    return res


def run_config(cfg, decisions=None, keep_events=False):
    if cfg.get("kind") == "threads":
        from checks import c11_threads
        return c11_threads.run_threads(cfg, decisions, keep_events)
    return run_history(cfg, keep_events)


# -------------------------------------------------------------- configuration

def gen_history(w, n_ops):
    ops = []
    nid = [0]
    models, kernels, directs, svs = [], [], [], []   # live object ids with info
    dead = set()

    def new_id(prefix):
        nid[0] += 1
        return "%s%d" % (prefix, nid[0])

    def add_model():
        name = w.choice(sorted(m_ for m_ in MODELS if m_ not in DIRECTED_ONLY))
        dtype = "single" if (name not in PY_MODELS and w.random() < 0.2) else "double"
        op = {"op": "load", "id": new_id("m"), "model": name, "dtype": dtype}
        ops.append(op)
        models.append(op)
        return op

    def add_kernel(m=None):
        m = m or (w.choice(models) if models and w.random() < 0.7 else add_model())
        two_d = w.random() < 0.3 and m["model"] not in ("hardsphere", "broad_peak", "allpd") \
            and m["model"] not in GENERIC
        op = {"op": "make_kernel", "id": new_id("k"), "m": m["id"], "q": w.choice(Q2D if two_d else Q1D),
              "model": m["model"]}
        ops.append(op)
        kernels.append(op)
        return op

    def add_call(k=None):
        live = [x for x in kernels if x["id"] not in dead]
        k = k or (w.choice(live) if live and w.random() < 0.8 else add_kernel())
        model = k["model"]
        keys = sorted(PARS[model])
        two_d = k["q"] in Q2D
        if not two_d:
            keys = [x for x in keys if x.split("#")[0] != "pd4"]
        pars = w.choice(keys)
        fn = "Fq" if (model in FQ_MODELS and w.random() < 0.3) else "Iq"
        if model in ("sphere@hardsphere", "sphere@hayter_msa", "sphere+cylinder", "sphere*cylinder",
                     "pyplug@hardsphere", "cylinder@hardsphere", "cylinder*sphere",
                     "sphere*cylinder+cylinder*sphere") and w.random() < 0.5:
            fn = "IqR"
        ops.append({"op": "call", "k": k["id"], "model": model, "fn": fn, "pars": pars,
                    "cutoff": w.choice(CUTOFFS), "mono": w.random() < 0.1})
        if w.random() < 0.25:
            ops.append(dict(ops[-1]))      # the identical request again (H3)

    def add_sv():
        name = w.choice(SV_MODELS)
        op = {"op": "sv_new", "id": new_id("s"), "model": name}
        ops.append(op)
        svs.append(op)
        return op

    while len(ops) < n_ops:
        r = w.random()
        if r < 0.45:
            add_call()
        elif r < 0.52:
            add_kernel()
        elif r < 0.56:
            add_model()
        elif r < 0.62:
            live = [x for x in kernels if x["id"] not in dead]
            if live:
                k = w.choice(live)
                ops.append({"op": "release_kernel", "k": k["id"]})
                dead.add(k["id"])
        elif r < 0.635:
            # the caller forgets a kernel or a model (a forgotten model's kernels stay alive)
            cands = [x for x in kernels if x["id"] not in dead] + models
            if cands:
                x = w.choice(cands)
                ops.append({"op": "forget", "x": x["id"]})
                if x in kernels:
                    dead.add(x["id"])
                else:
                    models.remove(x)
        elif r < 0.66:
            if models:
                m = w.choice(models)
                ops.append({"op": "release_model", "m": m["id"]})
                for k in kernels:
                    if k["m"] == m["id"]:
                        dead.add(k["id"])
                for d in directs:
                    if d["m"] == m["id"]:
                        dead.add(d["id"])
                if w.random() < 0.8:
                    add_call(add_kernel(m))      # release and re-creation
        elif r < 0.74:
            m = w.choice(models) if models and w.random() < 0.6 else add_model()
            if m["model"] == "allpd" or True:
                kind = w.choice(DATA_KINDS) if m["model"] not in GENERIC else "perfect"
                if m["model"] in ("hardsphere", "broad_peak", "allpd", "pyplug", "_spherepy") and kind.startswith("2d"):
                    kind = "pinhole"
                op = {"op": "direct", "id": new_id("d"), "m": m["id"], "data": kind, "model": m["model"],
                      "cutoff": w.choice([1e-5, 0.0])}
                ops.append(op)
                directs.append(op)
        elif r < 0.84:
            live = [x for x in directs if x["id"] not in dead]
            if live:
                d = w.choice(live)
                keys = [x for x in sorted(PARS[d["model"]]) if x.split("#")[0] not in ("pd4", "pd140") and
                        not (not d["data"].startswith("2d") and x == "mag")]
                ops.append({"op": "direct_call", "d": d["id"], "model": d["model"], "pars": w.choice(keys)})
                t_ = w.random()
                if t_ < 0.3:
                    ops.append(dict(ops[-1]))
                elif t_ < 0.45:
                    # the cutoff reassigned on the live calculator, then the same parameters again
                    ops.append({"op": "direct_cutoff", "d": d["id"], "cutoff": w.choice([0.0, 1e-5, 1e-3])})
                    ops.append(dict(ops[-2]))
        elif r < 0.93:
            s = w.choice(svs) if svs and w.random() < 0.75 else add_sv()
            rr = w.random()
            name = s["model"]
            if name.startswith("mult:"):
                alt = name[5:].replace("|", "@")
                name = alt if alt in SV_SET else name[5:].split("|")[0]
            if rr < 0.25 and SV_SET.get(name):
                nm, val = w.choice(SV_SET[name])
                ops.append({"op": "sv_set", "s": s["id"], "name": nm, "value": val})
            elif rr < 0.4 and SV_DISP.get(name):
                par, typ, npts, width = w.choice(SV_DISP[name])
                ops.append({"op": "sv_disp", "s": s["id"], "par": par, "type": typ, "npts": npts, "width": width})
            elif rr < 0.46 and SV_ARRAY.get(name):
                par, vals, wts = w.choice(SV_ARRAY[name])
                ops.append({"op": "sv_array", "s": s["id"], "par": par, "values": vals, "weights": wts})
            elif rr < 0.50 and name in ("sphere", "cylinder", "pyplug"):
                # SasView's P*S: a product instance built from this instance and a structure-factor instance
                sf = next((x for x in svs if x["model"] in ("hayter_msa", "hardsphere")), None)
                if sf is None:
                    sf = {"op": "sv_new", "id": new_id("s"), "model": w.choice(["hayter_msa", "hardsphere"])}
                    ops.append(sf)
                    svs.append(sf)
                op = {"op": "sv_mult", "id": new_id("s"), "p": s["id"], "s": sf["id"],
                      "model": "mult:%s|%s" % (name, sf["model"])}
                ops.append(op)
                svs.append(op)
            elif rr < 0.54:
                op = {"op": "sv_clone", "id": new_id("s"), "s": s["id"], "model": name}
                ops.append(op)
                svs.append(op)
            else:
                two_d = w.random() < 0.25 and name in ("sphere", "cylinder", "core_multi_shell")
                fn = w.choice(["evalDistribution", "evalDistribution", "calculate_Iq", "run", "runXY"])
                if two_d and fn in ("run", "runXY"):
                    fn = "evalDistribution"
                if name == "sphere@hardsphere" and w.random() < 0.3:
                    fn, two_d = "composition", False
                ops.append({"op": "sv_eval", "s": s["id"], "q": w.choice(Q2D if two_d else Q1D), "fn": fn})
        elif r < 0.955:
            ops.append({"op": "reset_env"})
        elif r < 0.965:
            ops.append({"op": "sv_reload", "model": w.choice(["pyplug", "allpd"])})
        else:
            name = w.choice(["sphere", "cylinder", "sphere@hardsphere", "pyplug", "allpd", "sphere+cylinder"])
            keys = [k for k in sorted(PARS[name]) if k.split("#")[0] not in ("pd4", "pd140", "mag", "mode", "mode1", "pd2", "reff")]
            two = name in ("sphere", "cylinder") and w.random() < 0.3
            ops.append({"op": "conv", "model": name, "fnc": "Iqxy" if two else "Iq", "q": w.choice(Q2D if two else Q1D),
                        "pars": w.choice(keys), "res": None if two else w.choice([None, None, "dq", "slit"])})
            if w.random() < 0.5:
                ops.append(dict(ops[-1]))
    return ops


def gen_config(run_seed, tier):
    st = Streams(run_seed)
    c = st["config"]
    if c.random() < 0.12:
        from checks import c11_threads
        return c11_threads.gen_config(st, tier)
    n = c.randint(6, 40)
    return {"kind": "history", "ops": gen_history(st["workload"], n), "recheck_seed": st["faults"].getrandbits(32)}


def sweep_configs(tier):
    """Every ordered pair of requests from the pool on one kernel of each kind
    (result-buffer and scratch-vector leaks are pairwise phenomena)."""
    out = []
    models = sorted(m for m in MODELS if m not in GENERIC and m not in DIRECTED_ONLY) if tier != "quick" else \
        ["sphere", "cylinder", "sphere@hardsphere", "sphere@hayter_msa", "cylinder@hardsphere", "pyplug@hardsphere",
         "_spherepy", "pyplug", "pyscalar", "allpd"]
    for model in models:
        keys = [k for k in sorted(PARS[model]) if k.split("#")[0] not in ("pd4", "bad", "toomany")
                and not k.endswith(("#t", "#n"))]
        for fn in (("Iq", "Fq") if model in FQ_MODELS else ("IqR",) if model in PRODUCTS else ("Iq",)):
            ops = [{"op": "load", "id": "m1", "model": model, "dtype": "double"},
                   {"op": "make_kernel", "id": "k1", "m": "m1", "q": "q3", "model": model}]
            for a in keys:
                for b in keys:
                    for key in (a, b):
                        ops.append({"op": "call", "k": "k1", "model": model, "fn": fn, "pars": key,
                                    "cutoff": 0.0, "mono": False})
            out.append({"kind": "history", "ops": ops, "recheck_seed": 1, "family": "ordered_pairs"})
    # 1-D and 2-D kernels made alternately on one model from q sets that share an array object
    for model, key in (("sphere", "def"), ("cylinder", "thin"), ("sphere", "mag")):
        ops = [{"op": "load", "id": "m1", "model": model, "dtype": "double"}]
        for n_, qk in enumerate(["q3", "xy3", "q3", "xy4", "xy3", "q3b", "q3"]):
            kid = "k%d" % (n_ + 1)
            ops.append({"op": "make_kernel", "id": kid, "m": "m1", "q": qk, "model": model})
            ops.append({"op": "call", "k": kid, "model": model, "fn": "Iq", "pars": key, "cutoff": 0.0, "mono": False})
        out.append({"kind": "history", "ops": ops, "recheck_seed": 4, "family": "kernels_1d_2d_shared_array"})
    # several calculators with different data on one model, interleaved (resolution
    # and transform objects built for one data set must not leak into another)
    for model, pk in (("sphere", ["def", "pd"]), ("cylinder", ["def", "pd2"])):
        kinds = [k for k in DATA_KINDS if not (k == "2d" and model == "cylinder" and False)]
        ops = [{"op": "load", "id": "m1", "model": model, "dtype": "double"}]
        ids = []
        for n_, kind in enumerate(kinds + list(reversed(kinds))):
            did = "d%d" % (n_ + 1)
            ids.append(did)
            ops.append({"op": "direct", "id": did, "m": "m1", "data": kind, "model": model, "cutoff": 1e-5})
            for key in pk:
                ops.append({"op": "direct_call", "d": did, "model": model, "pars": key})
        for did in ids:
            ops.append({"op": "direct_call", "d": did, "model": model, "pars": pk[0]})
        # the cutoff reassigned on live calculators, same parameters before and after
        for did in ids[:3]:
            ops += [{"op": "direct_call", "d": did, "model": model, "pars": pk[1]},
                    {"op": "direct_cutoff", "d": did, "cutoff": 1e-3},
                    {"op": "direct_call", "d": did, "model": model, "pars": pk[1]},
                    {"op": "direct_cutoff", "d": did, "cutoff": 0.0},
                    {"op": "direct_call", "d": did, "model": model, "pars": pk[1]}]
        out.append({"kind": "history", "ops": ops, "recheck_seed": 3, "family": "calculators_over_data_kinds"})
    # two models built from one library: a kernel of the one the caller forgot must survive
    # the release of the other, and release followed by re-creation must work
    for model in ("sphere", "sphere@hardsphere", "cylinder"):
        call = {"op": "call", "model": model, "fn": "Iq", "pars": "def", "cutoff": 0.0, "mono": False}
        ops = [{"op": "load", "id": "m1", "model": model, "dtype": "double"},
               {"op": "load", "id": "m2", "model": model, "dtype": "double"},
               {"op": "make_kernel", "id": "k1", "m": "m1", "q": "q3", "model": model}, dict(call, k="k1"),
               {"op": "make_kernel", "id": "k2", "m": "m2", "q": "q5", "model": model}, dict(call, k="k2"),
               {"op": "forget", "x": "m2"}, dict(call, k="k2"),
               {"op": "release_model", "m": "m1"}, dict(call, k="k2"),
               {"op": "make_kernel", "id": "k3", "m": "m1", "q": "q3", "model": model}, dict(call, k="k3"),
               dict(call, k="k2"), {"op": "forget", "x": "k3"}, {"op": "release_model", "m": "m1"}, dict(call, k="k2")]
        out.append({"kind": "history", "ops": ops, "recheck_seed": 6, "family": "two_models_one_library"})
    # models that share parts (a composite and one of its components, two composites with a
    # common sub-expression): load and evaluate one, then the other, then the first again
    related = ["sphere", "cylinder", "hardsphere", "sphere@hardsphere", "cylinder@hardsphere", "sphere+cylinder",
               "sphere*cylinder", "cylinder*sphere", "sphere*cylinder+cylinder*sphere"]
    for a in related:
        for b in related:
            if a == b:
                continue
            ops = []
            for n_, model in enumerate((a, b, a)):
                key = "named" if "named" in PARS[model] else "def"
                if n_ < 2:
                    ops += [{"op": "load", "id": "m%d" % n_, "model": model, "dtype": "double"},
                            {"op": "make_kernel", "id": "k%d" % n_, "m": "m%d" % n_, "q": "q3", "model": model}]
                kid = "k%d" % (n_ % 2)
                ops.append({"op": "call", "k": kid, "model": model, "fn": "Iq", "pars": key, "cutoff": 0.0, "mono": False})
            # ... and the first one loaded afresh after the second
            ops += [{"op": "load", "id": "m2", "model": a, "dtype": "double"},
                    {"op": "make_kernel", "id": "k2", "m": "m2", "q": "q3", "model": a},
                    {"op": "call", "k": "k2", "model": a, "fn": "Iq",
                     "pars": "named" if "named" in PARS[a] else "def", "cutoff": 0.0, "mono": False}]
            out.append({"kind": "history", "ops": ops, "recheck_seed": 7, "family": "models_sharing_parts"})
    # SasView's P*S built from two instances, then the structure factor on its own again
    for sf, wname in (("hayter_msa", "radius_effective"), ("hardsphere", None)):
        ev = {"op": "sv_eval", "q": "q3", "fn": "evalDistribution"}
        ops = [{"op": "sv_new", "id": "s1", "model": sf}]
        if wname:
            ops += [{"op": "sv_set", "s": "s1", "name": wname + ".width", "value": 0.2},
                    {"op": "sv_set", "s": "s1", "name": wname + ".npts", "value": 6}]
        ops += [dict(ev, s="s1"), {"op": "sv_new", "id": "s2", "model": "sphere"},
                {"op": "sv_mult", "id": "s3", "p": "s2", "s": "s1", "model": "mult:sphere|" + sf},
                dict(ev, s="s3"), dict(ev, s="s1"),
                {"op": "sv_clone", "id": "s4", "s": "s1", "model": sf}, dict(ev, s="s4"),
                {"op": "sv_new", "id": "s5", "model": sf}]
        if wname:
            ops += [{"op": "sv_set", "s": "s5", "name": wname + ".width", "value": 0.3},
                    {"op": "sv_set", "s": "s5", "name": wname + ".npts", "value": 5}]
        ops += [dict(ev, s="s5"), {"op": "sv_set", "s": "s3", "name": "radius", "value": 42.0}, dict(ev, s="s3")]
        out.append({"kind": "history", "ops": ops, "recheck_seed": 5, "family": "product_from_two_instances"})
    # pure-Python models asked for results in the subnormal range after compiled libraries
    # were loaded into the process (loading a library must not change the floating-point environment)
    ops = []
    for n_, (model, key) in enumerate((("pyscalar", "tiny"), ("sphere", "def"), ("pyscalar", "tiny"),
                                       ("cylinder", "def"), ("broad_peak", "tiny"), ("sphere@hardsphere", "def"),
                                       ("_spherepy", "tiny"), ("pyscalar", "tiny"))):
        ops += [{"op": "load", "id": "m%d" % n_, "model": model, "dtype": "double"},
                {"op": "make_kernel", "id": "k%d" % n_, "m": "m%d" % n_, "q": "q3", "model": model},
                {"op": "call", "k": "k%d" % n_, "model": model, "fn": "Iq", "pars": key, "cutoff": 0.0, "mono": False}]
    out.append({"kind": "history", "ops": ops, "recheck_seed": 9, "family": "python_model_after_compiled"})
    # the distribution type switched through setParam after a disperser of another type was
    # installed, in a process that has already used the new type with other settings
    for model, par in (("sphere", "radius"), ("cylinder", "length"), ("pyplug", "radius")):
        ev = {"op": "sv_eval", "q": "q3", "fn": "evalDistribution"}

        def sset(s_, name, value):
            return {"op": "sv_set", "s": s_, "name": par + "." + name, "value": value}
        ops = [{"op": "sv_new", "id": "s1", "model": model}, sset("s1", "width", 0.15), sset("s1", "npts", 7),
               sset("s1", "nsigmas", 1.5), dict(ev, s="s1"),
               {"op": "sv_new", "id": "s2", "model": model},
               {"op": "sv_disp", "s": "s2", "par": par, "type": "uniform", "npts": 5, "width": 0.2}, dict(ev, s="s2"),
               sset("s2", "type", "gaussian"), dict(ev, s="s2"), sset("s2", "type", "schulz"), dict(ev, s="s2"),
               {"op": "sv_new", "id": "s3", "model": model}, sset("s3", "width", 0.2), sset("s3", "npts", 6),
               dict(ev, s="s3"), dict(ev, s="s1")]
        out.append({"kind": "history", "ops": ops, "recheck_seed": 8, "family": "disperser_type_switch"})
    # sibling instances: clone, change one of the two, evaluate the other (every
    # configuration operation of the pool, both directions)
    for model in ("sphere", "cylinder", "pyplug", "allpd", "sphere@hayter_msa", "core_multi_shell"):
        cfgops = [{"op": "sv_set", "name": nm, "value": val} for nm, val in SV_SET.get(model, [])]
        cfgops += [{"op": "sv_disp", "par": p_, "type": t_, "npts": min(n_, 9), "width": w_}
                   for p_, t_, n_, w_ in SV_DISP.get(model, [])]
        cfgops += [{"op": "sv_array", "par": p_, "values": v_, "weights": w_} for p_, v_, w_ in SV_ARRAY.get(model, [])]
        ev = {"op": "sv_eval", "q": "q3", "fn": "evalDistribution"}
        ops = [{"op": "sv_new", "id": "s1", "model": model}]
        first_disp = next((c for c in cfgops if c["op"] == "sv_disp"), None)
        if first_disp:
            ops.append(dict(first_disp, s="s1"))
        ops.append(dict(ev, s="s1"))
        k = 1
        for c in cfgops:
            k += 1
            clone = "s%d" % k
            ops += [{"op": "sv_clone", "id": clone, "s": "s1", "model": model},
                    dict(c, s=clone), dict(ev, s="s1"), dict(ev, s=clone)]
        for c in cfgops[:3]:
            ops += [dict(c, s="s1"), dict(ev, s="s2"), dict(ev, s="s1")]
        out.append({"kind": "history", "ops": ops, "recheck_seed": 2, "family": "sibling_instances"})
    # two models whose parameters share every dispersity setting (type, points, width, nsigma,
    # centre, relative) but not their limits, one after the other in either order and through
    # either interface: what a distribution looks like must not be remembered without its limits
    for a, b in (("allpd", "allpdlim"), ("allpdlim", "allpd")):
        for key_a, key_b in (("pd", "pd"), ("pd", "pd9")):
            ops = []
            for n_, (model, key) in enumerate(((a, key_a), (b, key_b))):
                pars = key if key in PARS[model] else "pd"
                ops += [{"op": "load", "id": "m%d" % n_, "model": model, "dtype": "double"},
                        {"op": "make_kernel", "id": "k%d" % n_, "m": "m%d" % n_, "q": "q3", "model": model},
                        {"op": "call", "k": "k%d" % n_, "model": model, "fn": "Iq", "pars": pars,
                         "cutoff": 0.0, "mono": False}]
            ops += [{"op": "call", "k": "k0", "model": a, "fn": "Fq", "pars": "pd", "cutoff": 0.0, "mono": False},
                    {"op": "call", "k": "k1", "model": b, "fn": "Iq", "pars": "pd", "cutoff": 1e-3, "mono": False}]
            out.append({"kind": "history", "ops": ops, "recheck_seed": 10, "family": "same_settings_different_limits"})
    from checks import c11_threads
    out.extend(c11_threads.sweep_configs(tier))
    return out


# -------------------------------------------------------------- minimisation

def violation_class(v):
    return (v["inv"], v.get("kind"), v.get("model"), v.get("fn"))


def finding_key(cfg, violations):
    v = violations[0]
    return {"inv": v["inv"], "kind": v.get("kind"), "model": v.get("model"), "pars": v.get("pars"),
            "fn": v.get("fn")}


def shrink_candidates(cfg, decisions):
    if cfg.get("kind") == "threads":
        from checks import c11_threads
        for c in c11_threads.shrink_candidates(cfg, decisions):
            yield c
        return
    ops = cfg["ops"]
    n = len(ops)
    # drop chunks, then single operations (dependants of a dropped creator are skipped at run time)
    size = n // 2
    while size >= 1:
        for start in range(0, n, size):
            c = copy.deepcopy(cfg)
            del c["ops"][start:start + size]
            if c["ops"]:
                yield c, None
        size //= 2


def sample_of(cfg, res):
    if cfg.get("kind") == "threads":
        from checks import c11_threads
        return c11_threads.sample_of(cfg, res)

    def short(op):
        o = dict(op)
        return " ".join("%s=%s" % (k, o[k]) for k in o if k != "model" or o["op"] in ("load", "sv_new"))
    return {"kind": "history", "ops": [short(o) for o in cfg["ops"][:60]], "violations": len(res["violations"])}


SIM_TIME_MEASURE = "logical time: operations per history (lock-step runs) and scheduler steps (caller-thread runs), summed in scheduler_steps_total"
SCHEDULE_SHRINK = True
CHUNK = 8
CHUNK_TIMEOUT = 900
MINIMISE_BUDGET = 40
MINIMISE_TOTAL = 300
EXPECTED_PROBES = ["same_kernel_other_pars", "mono_after_poly_same_object", "magnetic_toggle_same_object",
                   "eval_after_failed_eval", "py_kernel_second_call", "empty_mesh_after_nonempty",
                   "clone_after_setParam", "two_models_share_process", "callFq_with_mode_key",
                   "identical_request_repeated", "fresh_process_run", "array_distribution_set",
                   "same_mesh_shape_one_aspect_changed", "only_control_parameter_changed",
                   "threads_lazy_build_contended",
                   "threads_lock_contended"]


def n_runs(tier):
    return 2500 if tier == "quick" else 60000


def budget(tier):
    return 240 if tier == "quick" else 2000


def extra_evidence(extras, agg):
    return {"evaluating_operations_compared_with_fresh_reference": sum(e.get("evaluated", 0) for e in extras),
            "thread_runs": sum(1 for e in extras if e.get("threads"))}


RULE = ("one case = (a) one operation history (6-40 operations: load_model, make_kernel for several 1-D/2-D q sets, "
        "call_kernel/call_Fq with parameter sets incl. dispersity meshes on both sides of 100 points, magnetic, "
        "legal failing requests, kernel/model release and re-creation, DirectModel over perfect/pinhole/slit/2-D/"
        "SESANS data, SasView-style instances with setParam/set_dispersion/clone/evalDistribution/"
        "calc_composition_models, reset_environment) executed by one long-lived real process, every "
        "evaluating operation compared byte for byte with a fresh process answering the same request first; or (b) "
        "one caller-thread run: 2-3 threads evaluating SasView-style models, pre-empted at every line of "
        "sasview_model.py/kerneldll.py under a seeded scheduler with a simulated calculation_lock. distinct = "
        "distinct sha256 of configuration+event log; non-trivial = at least one evaluation follows another "
        "evaluation on the same object (a), or at least one pre-emption separates two steps of one thread (b)")

ASSUMPTIONS = [
    "the reference is 'the same request made first in a fresh process' (memoised per request; 2% of memo hits are recomputed and a disagreement between two fresh processes is itself reported)",
    "only evaluations are compared; state-changing operations (release, setParam, clone, reset_environment) may raise and that is logged, not judged",
    "a kernel is never evaluated after its own release() or after its model's release(): that is documented as freeing its resources",
    "caller threads never share model instances (a setParam from another thread would change the request, not the history); thread runs are confined to the lock-protected SasView-style interface",
    "the bumps wrapper is not exercised (bumps is not installed); GPU back ends do not exist in this sandbox",
]

REAL_STUB = {
    "real": ["sasmodels (direct_model, kernel*, details, product, mixture, sasview_model, resolution, sesans)",
             "compiled kernels via real dlopen", "processes (fork per session / per fresh reference)",
             "C compiler (memoised by content)", "caller threads (real threads, simulated choice of who runs)"],
    "stub": ["sasview_model.calculation_lock replaced by a simulated lock with identical semantics (thread runs only)"],
}
