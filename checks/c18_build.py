"""C18 - building a model is atomic under concurrent first use and crashes.

N simulated processes (baton-passed threads) race through the *real*
core.load_model -> kerneldll.make_dll / compile_model / DllModel._load_dll /
call_kernel against one empty cache directory, pre-empted at every line of
kerneldll.py and at every step of a scripted compiler that writes its output
in pieces; processes (and process groups) are killed at arbitrary points,
compilers fail, and a fresh process loads the model afterwards.

See DESIGN.md section 4 for the oracles I1..I6.
"""
import hashlib
import os
import random
import shutil
import stat
import subprocess
import sys

import numpy as np

from simkit import baton, seams
from simkit.common import REPO, canon, scratch_root, tree_id
from simkit.prng import Streams

PROP = "C18"

ASSETS = os.path.join(os.path.dirname(os.path.abspath(__file__)), "assets")

Q = np.array([0.01, 0.05, 0.1, 0.3])
REQUESTS = {
    "sphere": dict(radius=50.0, radius_pd=0.1, radius_pd_n=5, scale=2.0),
    "cylinder": dict(radius=20.0, length=100.0, length_pd=0.2, length_pd_n=4),
    "c18plug": dict(a=7.0, b=2.0),
    # another version of the same plugin (same model id, other source): two
    # versions of one model may be built concurrently against one cache
    "c18plug_v2": dict(a=7.0, b=2.0),
}
DTYPES = ("double", "single")

G = {}   # per-invocation state, built in the parent before workers fork


# --------------------------------------------------------------------- setup

def model_ref(model):
    if model == "c18plug":
        return os.path.join(ASSETS, "c18plug.py")
    if model == "c18plug_v2":
        return os.path.join(ASSETS, "v2", "c18plug.py")
    return model


def prepare(tier):
    """Runs once, in the parent, before workers fork: golden libraries and
    expected values from VERIF_REPO's working tree."""
    import sasmodels  # noqa
    from sasmodels import core, generate, kerneldll
    from sasmodels.direct_model import call_kernel

    root = scratch_root()
    G["root"] = root
    gdir = os.path.join(root, "golden")
    os.makedirs(gdir, exist_ok=True)
    G["kd_file"] = os.path.realpath(kerneldll.__file__)
    G["trace_files"] = [G["kd_file"], os.path.realpath(shutil.__file__)]
    G["tree"] = tree_id([G["kd_file"]])
    golden = {}
    by_src = {}
    for model in sorted(REQUESTS):
        info = core.load_model_info(model_ref(model))
        source = generate.make_source(info)["dll"]
        for dtype in DTYPES:
            npdtype = np.dtype("d" if dtype == "double" else "f")
            text = generate.convert_type(source, npdtype)
            cfile = os.path.join(gdir, "%s_%s.c" % (model, dtype))
            sofile = os.path.join(gdir, "%s_%s.so" % (model, dtype))
            with open(cfile, "w") as fid:
                fid.write(text)
            cmd = kerneldll.compile_command(source=cfile, output=sofile)
            subprocess.check_output(cmd, stderr=subprocess.STDOUT)
            with open(sofile, "rb") as fid:
                data = fid.read()
            m = kerneldll.DllModel(sofile, info, dtype=npdtype)
            k = m.make_kernel([Q])
            y = call_kernel(k, dict(REQUESTS[model]))
            entry = {"bytes": data, "path": sofile,
                     "expected": np.array(y).tobytes(),
                     "src_sha": hashlib.sha256(text.encode()).hexdigest()}
            golden[(model, dtype)] = entry
            by_src[entry["src_sha"]] = entry
    G["golden"] = golden
    G["by_src"] = by_src
    G["extra_golden"] = {}
    G["names"] = [0]
    G["devnull"] = os.open(os.devnull, os.O_RDWR)
    G["run_counter"] = 0
    seams.install_name_generator(G["names"])
    shutil.COPY_BUFSIZE = 4096
    if hasattr(shutil, "_USE_CP_SENDFILE"):
        shutil._USE_CP_SENDFILE = False
    if hasattr(shutil, "_HAS_FCOPYFILE"):
        shutil._HAS_FCOPYFILE = False
    # solo step count: the yardstick of the bounded-liveness oracle
    solo = {}
    G["solo"] = {}
    for model in sorted(REQUESTS):
        cfg = base_config([{"name": "P0", "loads": [[model, "double"]], "start_at": 0}])
        cfg["fresh"] = None
        res = run_one(cfg)
        if res["violations"] or res["harness_error"]:
            raise baton.HarnessError("solo build of %s does not work on this tree: %r"
                                     % (model, res["violations"] or res["harness_error"]))
        solo[model] = res["steps"]
        ev = run_one(cfg, keep_events=True)["events"]
        pos = sorted(set(e[0] for e in ev if e[1] != "-" and e[2].split(":")[0] in ("os", "io", "cc", "ld", "tmp")))
        G.setdefault("event_steps", {})[model] = pos
    G["solo"] = solo
    G["solo_max"] = max(solo.values())
    # a packaging run on its own (how many steps it takes; it must work on this tree)
    cfg = base_config([{"name": "K0", "loads": [], "start_at": 0, "precompile": [["sphere", "double"]]}])
    cfg["fresh"] = None
    res = run_one(cfg)
    if res["violations"] or res["harness_error"]:
        raise baton.HarnessError("a solo packaging run does not work on this tree: %r"
                                 % (res["violations"] or res["harness_error"]))
    solo["__packager__"] = res["steps"]


# --------------------------------------------------------------------- world

import _thread as _thread_mod
_LOCK_TYPES = (type(_thread_mod.allocate_lock()), _thread_mod.RLock)


def _copy_state(state):
    """Deep copy of a process's module data; locks are not copied but made anew
    (unlocked), as they are in a forked or freshly started process."""
    import copy
    out = {}
    for name, val in state.items():
        if isinstance(val, _LOCK_TYPES):
            out[name] = _thread_mod.RLock() if isinstance(val, _thread_mod.RLock) else _thread_mod.allocate_lock()
        else:
            out[name] = copy.deepcopy(val)
    return out


def _fspath(p):
    try:
        p = os.fspath(p)
    except TypeError:
        return str(p)
    return p.decode() if isinstance(p, bytes) else p


class World(object):
    """Everything one run shares: directories, seams' callbacks, oracles."""

    def __init__(self, cfg, run_dir):
        self.cfg = cfg
        self.run_dir = run_dir
        self.cache_dir = os.path.join(run_dir, "cache")
        self.tmp_dir = os.path.join(run_dir, "tmp")
        os.makedirs(self.tmp_dir)
        self.pack_cache = os.path.join(run_dir, "packcache")     # a packaging program's own cache
        os.makedirs(self.pack_cache)
        self.roots = [(run_dir, "<S>"), (G["root"], "<G>")]
        self.sched = None
        self.violations = []
        self.probes = {}
        self.fired = {}
        self.cc_count = 0
        self.loads = 0
        self.compiling = {}       # out path -> set of cc actor names writing it
        self.cc_failed_for = set()
        self.cc_outputs = {}      # cc actor -> output path while it is writing
        self.io_faults = [dict(f) for f in cfg.get("io_faults", [])]
        self.io_failed_for = set()
        self.pending_kills = [dict(k) for k in cfg.get("kills", [])]
        self.label_counts = {}
        self._ev_pos = 0
        self.mapped = []          # (actor, path, ino)
        self.final_paths = {}     # canonical request -> set of dllpaths reported

    # -- process-private module state ---------------------------------------------
    # Simulated processes share one interpreter.  kerneldll's module-level
    # *data* (a build-directory memo, say) would then be shared between
    # "processes" although every real process has its own copy, so it is
    # swapped at every hand-over: each process sees its own copy (pristine at
    # start, or - for a process forked from another - a copy of the parent's
    # at the moment of the fork).
    SEAM_NAMES = ("subprocess", "ct", "os", "tempfile", "open")
    PRIVATE_SETTINGS = ("SAS_DLL_PATH",)      # per-process configuration (the environment it was started in)

    def _module_data(self):
        import types
        from sasmodels import kerneldll as kd
        out = {}
        for name, val in list(vars(kd).items()):
            if name.startswith("__") or name in self.SEAM_NAMES:
                continue
            if isinstance(val, (dict, list, set)) or isinstance(val, _LOCK_TYPES):
                # (an in-process lock belongs to one process: each simulated process gets its own)
                out[name] = val
            elif isinstance(val, (int, float, str, bool, tuple, type(None))) and \
                    (not name.isupper() or name in self.PRIVATE_SETTINGS):
                out[name] = val
        return out

    def init_private_state(self):
        import copy
        self._pristine = _copy_state(self._module_data())
        self._names = set(self._pristine)

    def switch_out(self, a):
        if a.kind != "proc":
            return
        from sasmodels import kerneldll as kd
        cur = self._module_data()
        self._names |= set(cur)
        a.data["modstate"] = cur

    def switch_in(self, a):
        if a.kind != "proc":
            return
        import copy
        from sasmodels import kerneldll as kd
        st = a.data.get("modstate")
        if st is None:
            src = a.data.get("forked_from")
            parent = self.sched.by_name.get(src) if src else None
            if parent is not None and parent.data.get("modstate") is not None:
                st = _copy_state(parent.data["modstate"])
                self.probe("forked_child_inherits_module_state")
            else:
                st = _copy_state(self._pristine)
            a.data["modstate"] = st
        for name in self._names:
            if name in st:
                setattr(kd, name, st[name])
            elif hasattr(kd, name):
                try:
                    delattr(kd, name)
                except AttributeError:
                    pass

    def restore_pristine(self):
        from sasmodels import kerneldll as kd
        for name in self._names:
            if name in self._pristine:
                setattr(kd, name, self._pristine[name])
            elif hasattr(kd, name):
                try:
                    delattr(kd, name)
                except AttributeError:
                    pass

    # -- helpers ---------------------------------------------------------------
    def probe(self, name, n=1):
        self.probes[name] = self.probes.get(name, 0) + n

    def canon(self, path):
        return canon(path, self.roots)

    def owner_of(self, actor):
        return actor.data.get("owner", actor.name)

    def sim_pid(self):
        a = self.sched.current() if self.sched else None
        if a is not None and a.data.get("pid") is not None:
            # processes in different pid namespaces (containers or hosts sharing the cache
            # directory) may well carry the same process id
            self.probe("process_id_shared_across_namespaces")
            return int(a.data["pid"])
        return 1000 + (a.id if a is not None else 0)

    def violation(self, inv, actor, detail):
        self.violations.append({"inv": inv, "actor": actor, "detail": detail,
                                "step": self.sched.step if self.sched else -1})

    def note_syscall(self, label):
        s = self.sched
        if s is not None and s.current() is not None:
            s.note(label)

    def track_fd(self, fd):
        """Remember a descriptor opened by the running simulated process."""
        me = self.sched.current() if self.sched else None
        if me is not None and isinstance(fd, int) and fd > 2:
            try:
                st = os.fstat(fd)
                # descriptor numbers are reused once closed: remember which file this one is
                me.data.setdefault("fds", []).append((fd, st.st_dev, st.st_ino))
            except OSError:
                pass
        return fd

    def close_descriptors_of(self, actor):
        """What the kernel does when a process dies: its descriptors are closed
        (advisory locks released, nothing in user-space buffers is flushed).
        The numbers stay allocated - pointed at /dev/null - so that the parked
        thread's file objects cannot later close somebody else's descriptor."""
        for fd, dev, ino in actor.data.get("fds", []):
            try:
                st = os.fstat(fd)
                if (st.st_dev, st.st_ino) != (dev, ino):
                    continue            # closed long ago, the number now belongs to somebody else
                os.dup2(G["devnull"], fd)
                self.probe("descriptor_closed_by_kill")
            except OSError:
                pass
        actor.data["fds"] = []

    def io_fault(self, kind):
        """A failing system call (disk full) scheduled for the running process?"""
        me = self.sched.current() if self.sched else None
        if me is None:
            return False
        for f in self.io_faults:
            if f["kind"] == kind and f["target"] == me.name:
                self.io_faults.remove(f)
                self.io_failed_for.add(me.name)
                self.fired[kind] = self.fired.get(kind, 0) + 1
                self.sched.note("fault:" + kind)
                return True
        return False

    # -- seam callbacks ----------------------------------------------------------
    def on_exists(self, path, result):
        path = _fspath(path)
        s = self.sched
        me = s.current() if s else None
        if me is None:
            return
        writers = self.compiling.get(os.path.basename(path))
        if writers and any(w != me.name and self._owner_name(w) != me.name for w in writers):
            # somebody else's compiler is between creating and completing a
            # library of this name (wherever it writes it) during this lookup
            self.probe("lookup_during_foreign_compile")
            if result:
                self.probe("lookup_hit_during_foreign_compile")
        if result and path.endswith(".so"):
            self.probe("cache_hit")
        s.yield_point("os:exists", [self.canon(path), bool(result)])

    def _owner_name(self, actor_name):
        a = self.sched.by_name.get(actor_name)
        return a.data.get("owner") if a is not None else None

    def on_fileop(self, op, *paths):
        paths = [_fspath(p) for p in paths]
        s = self.sched
        me = s.current() if s else None
        if me is None:
            return
        if op == "unlink" and paths[0].endswith(".c"):
            me.data["phase"] = "src_unlinked"
        s.yield_point("os:" + op, [self.canon(p) for p in paths])

    # -- scripted compiler -------------------------------------------------------
    def start_compiler(self, command):
        """fork+exec of the compiler: a child actor that runs concurrently
        with its parent until the parent waits for it."""
        s = self.sched
        me = s.current()
        idx = self.cc_count
        self.cc_count += 1
        plans = self.cfg.get("cc_plans", [])
        plan = plans[idx] if idx < len(plans) else {"cuts": [], "mode": "append", "fail": None}
        child = s.spawn("cc%d" % idx, lambda a: self._cc_main(a, list(command), plan),
                        start_at=s.step, parent=me, kind="cc")
        child.data["owner"] = me.name
        me.data["phase"] = "cc_started"
        return child

    def wait_compiler(self, child):
        s = self.sched
        me = s.current()
        s.wait_child(child)
        if child.exc is not None:
            raise baton.HarnessError("scripted compiler raised: %r" % (child.exc,))
        rc, out = child.result if child.result is not None else (1, b"")
        if rc != 0 and child.data.get("injected_failure"):
            # only a failure the simulator injected excuses the process that
            # reports it; a compiler that fails because another process pulled
            # its output directory away is the race under test
            self.cc_failed_for.add(me.name)
        return rc, out

    def run_compiler(self, command, kw):
        s = self.sched
        me = s.current() if s else None
        if me is None:
            kw.pop("shell", None)
            return subprocess.check_output(command, **kw)
        rc, out = self.wait_compiler(self.start_compiler(command))
        if rc != 0:
            raise subprocess.CalledProcessError(rc, command, output=out)
        return out

    def _golden_for_source(self, text):
        sha = hashlib.sha256(text.encode()).hexdigest()
        entry = G["by_src"].get(sha) or G["extra_golden"].get(sha)
        if entry is None:
            # A source we have not seen (the tree generates something else
            # under simulation than at start-up): compile it for real so we
            # never hand out a library that does not belong to its source.
            from sasmodels import kerneldll
            base = os.path.join(G["root"], "golden", "extra_" + sha[:16])
            with open(base + ".c", "w") as fid:
                fid.write(text)
            cmd = kerneldll.compile_command(source=base + ".c", output=base + ".so")
            subprocess.check_output(cmd, stderr=subprocess.STDOUT)
            with open(base + ".so", "rb") as fid:
                entry = {"bytes": fid.read(), "path": base + ".so", "src_sha": sha,
                         "expected": None}
            G["extra_golden"][sha] = entry
            self.probe("compiler_saw_unknown_source")
        return entry

    @staticmethod
    def _parse_cc(command):
        out = None
        src = None
        for i, arg in enumerate(command):
            if arg == "-o" and i + 1 < len(command):
                out = command[i + 1]
            elif arg.startswith("/OUT:"):
                out = arg[5:]
            elif arg.endswith(".c") and not arg.startswith("-"):
                src = arg[3:] if arg.startswith("/Tp") else arg
        if out is None or src is None:
            raise baton.HarnessError("cannot parse compiler command %r" % (command,))
        return src, out

    def _cc_main(self, a, command, plan):
        s = self.sched
        src, out = self._parse_cc(command)
        out = os.path.abspath(out)
        owner = s.by_name.get(a.data["owner"])
        s.yield_point("cc:start", [self.canon(src), self.canon(out)])
        try:
            with open(src) as fid:
                text = fid.read()
        except OSError as exc:
            s.yield_point("cc:exit", 1)
            return 1, ("cc: error: %s" % exc).encode()
        g = self._golden_for_source(text)["bytes"]
        s.yield_point("cc:read_src")
        if os.path.lexists(out) and not os.path.isdir(out):
            st = os.lstat(out)
            if stat.S_ISREG(st.st_mode) or stat.S_ISLNK(st.st_mode):
                os.unlink(out)          # what GNU ld does to an ordinary output
                s.yield_point("cc:unlink_out")
        try:
            fd = self.track_fd(os.open(out, os.O_WRONLY | os.O_CREAT | os.O_TRUNC, 0o755))
        except OSError as exc:
            # the real linker: "cannot open output file ...: No such file or directory"
            self.probe("compiler_could_not_create_output")
            s.yield_point("cc:exit", 1)
            return 1, ("/usr/bin/ld: cannot open output file %s: %s" % (out, exc.strerror)).encode()
        try:
            writers = self.compiling.setdefault(os.path.basename(out), set())
            if writers:
                self.probe("two_compilers_same_library")
            if any(p2 == out for p2 in self.cc_outputs.values()):
                self.probe("two_compilers_same_output_path")
            self.cc_outputs[a.name] = out
            writers.add(a.name)
            if owner is not None:
                owner.data["phase"] = "cc_created"
            s.yield_point("cc:created")
            n = len(g)
            cuts = sorted(set(int(n * f) for f in plan.get("cuts", []) if 0 < int(n * f) < n))
            bounds = [0] + cuts + [n]
            k = len(bounds) - 1
            fail = plan.get("fail")
            if plan.get("mode") == "sparse":
                os.ftruncate(fd, n)     # ld seeks: full size, zero tail
            for i in range(k):
                if fail is not None and fail["after"] == i:
                    return self._cc_fail(a, fd, out, fail, owner)
                os.pwrite(fd, g[bounds[i]:bounds[i + 1]], bounds[i])
                if owner is not None:
                    owner.data["phase"] = "cc_partial" if i + 1 < k else "cc_full"
                if i + 1 == k:
                    writers.discard(a.name)
                s.yield_point("cc:piece", [i + 1, k])
            if fail is not None and fail["after"] >= k:
                return self._cc_fail(a, fd, out, fail, owner)
        finally:
            try:
                os.close(fd)
            except OSError:
                pass
            self.compiling.get(os.path.basename(out), set()).discard(a.name)
            self.cc_outputs.pop(a.name, None)
        s.yield_point("cc:exit", 0)
        return 0, b""

    def _cc_fail(self, a, fd, out, fail, owner):
        a.data["injected_failure"] = True
        self.fired["cc_fail_" + fail["how"]] = self.fired.get("cc_fail_" + fail["how"], 0) + 1
        if fail["how"] == "clean":
            # ld reports the error (disk full, ...) and removes its output
            try:
                os.unlink(out)
            except OSError:
                pass
            self.sched.yield_point("cc:exit", 1)
            return 1, b"collect2: error: ld returned 1 exit status (simulated: No space left on device)"
        # the compiler itself was killed (OOM): partial output stays
        if os.path.exists(out) and os.path.getsize(out) < 1 << 30:
            self.probe("compiler_failed_with_partial_output")
        self.sched.yield_point("cc:exit", -9)
        return -9, b""

    # -- guarded loader ------------------------------------------------------------
    def load_library(self, path, a, kw):
        import ctypes
        path = _fspath(path)
        s = self.sched
        me = s.current() if s else None
        if me is None:
            return ctypes.CDLL(path, *a, **kw)
        self.loads += 1
        writers = self.compiling.get(os.path.basename(path))
        if writers:
            self.probe("load_during_foreign_compile")
        exp = G["golden"].get(tuple(me.data.get("req", ())))
        try:
            with open(path, "rb") as fid:
                data = fid.read()
                ino = os.fstat(fid.fileno()).st_ino
        except OSError:
            s.yield_point("ld:open", [self.canon(path), "missing"])
            raise OSError("%s: cannot open shared object file: No such file or directory" % path)
        if exp is not None and data == exp["bytes"]:
            self.mapped.append((me, os.path.abspath(path), ino, exp))
            me.data["phase"] = "loaded"
            s.yield_point("ld:open", [self.canon(path), "complete"])
            return ctypes.CDLL(exp["path"], *a, **kw)
        if exp is None:
            raise baton.HarnessError("loader called outside a request")
        other = [k for k, g in G["golden"].items() if g["bytes"] == data]
        if other:
            self.violation("I3", me.name, "loaded the wrong library: %s holds the complete build of %s/%s, "
                           "not of the requested source" % (self.canon(path), other[0][0], other[0][1]))
            what = "the build of another source"
        else:
            what = ("%d of %d bytes" % (len(data), len(exp["bytes"]))
                    if len(data) != len(exp["bytes"]) else
                    "%d bytes, content differs from the complete build" % len(data))
            self.violation("I3", me.name, "loaded a partially written library: %s at %s"
                           % (what, self.canon(path)))
        s.yield_point("ld:open", [self.canon(path), "partial", len(data)])
        raise OSError("%s: file too short (simulated loader: %s)" % (path, what))

    # -- per-step hook: fault triggers and the mapped-file invariant ----------------
    def on_step(self, sched, actor):
        events = sched.events
        while self._ev_pos < len(events):
            ev = events[self._ev_pos]
            self._ev_pos += 1
            self._check_label_kills(ev)
        for k in list(self.pending_kills):
            when = k["when"]
            if "step" in when and sched.step >= when["step"]:
                self.pending_kills.remove(k)
                self._do_kill(k)
        for (a, path, ino, exp) in self.mapped:
            if a.state in ("done", "killed") or a.data.get("i6"):
                continue
            try:
                st = os.stat(path)
            except OSError:
                continue
            if st.st_ino != ino:
                continue
            with open(path, "rb") as fid:
                data = fid.read()
            if data != exp["bytes"]:
                a.data["i6"] = True
                self.violation("I6", a.name, "library %s was rewritten in place (%d of %d bytes) "
                               "while mapped by a live process" %
                               (self.canon(path), len(data), len(exp["bytes"])))

    def _check_label_kills(self, ev):
        _, who, label, _ = ev
        if not self.pending_kills:
            return
        src = self.sched.by_name.get(who)
        src_owner = self.owner_of(src) if src is not None else who
        for k in list(self.pending_kills):
            when = k["when"]
            if "label" not in when or not (label == when["label"] or
                                           (":" in when["label"] and label.startswith(when["label"] + ":"))):
                continue
            own = (src_owner == k["target"])
            if (when.get("scope", "own") == "own") != own:
                continue
            key = id(k)
            k["_seen"] = k.get("_seen", 0) + 1
            if k["_seen"] >= when.get("nth", 1):
                self.pending_kills.remove(k)
                self._do_kill(k)

    def _do_kill(self, k):
        target = self.sched.by_name.get(k["target"])
        if target is None:
            return
        phase = target.data.get("phase", "start")
        if self.sched.kill(target, k["group"]):
            self.close_descriptors_of(target)
            if k["group"]:
                for child in target.children:
                    self.close_descriptors_of(child)
            kind = "kill_group" if k["group"] else "kill_parent_only"
            self.fired[kind] = self.fired.get(kind, 0) + 1
            self.sched.events.append((self.sched.step, target.name, "fault:" + kind, phase))
            self.probe({"start": "kill_before_output", "cc_started": "kill_before_output",
                        "cc_created": "kill_after_partial", "cc_partial": "kill_after_partial",
                        "cc_full": "kill_after_full_output",
                        "src_unlinked": "kill_after_source_unlink",
                        "loaded": "kill_after_load"}.get(phase, "kill_other"))
            if not k["group"] and any(c.state == "runnable" for c in target.children):
                self.probe("orphan_compiler_running")


# ------------------------------------------------------------------- one run

def proc_main(a):
    """One simulated process.  Handlers it registered with atexit run when it
    ends normally or with an exception (the interpreter exits), in LIFO order,
    still under the scheduler; a killed process never gets there."""
    try:
        return _proc_body(a)
    finally:
        handlers = a.data.get("atexit") or []
        while handlers and not a.sched.tearing_down:
            fn, args, kw = handlers.pop()
            a.sched.yield_point("atexit:" + getattr(fn, "__name__", "handler"))
            try:
                fn(*args, **kw)
            except Exception:
                pass


def _proc_body(a):
    from sasmodels import core
    from sasmodels.direct_model import call_kernel
    out = []
    if a.data.get("precompile"):
        # a packaging run (core.precompile_dlls): a program with its own cache setting builds
        # libraries for the builtin models into the directory the loaders use as their cache
        from sasmodels import kerneldll
        world = a.data["world"]
        kerneldll.SAS_DLL_PATH = world.pack_cache
        world.probe("packaging_run_started")
        # (whoever packages creates the target directory first; precompile_dlls' own
        # check-then-create of it is not what this property is about)
        os.makedirs(world.cache_dir, exist_ok=True)
        a.data["req"] = tuple(a.data["precompile"][0])
        a.data["phase"] = "start"
        core.precompile_dlls(world.cache_dir, dtype=a.data["precompile"][0][1])
        return out
    for model, dtype in a.data["loads"]:
        a.data["req"] = (model, dtype)
        a.data["phase"] = "start"
        m = core.load_model(model_ref(model), dtype=dtype, platform="dll")
        k = m.make_kernel([Q])
        y = call_kernel(k, dict(REQUESTS[model]))
        out.append((model, dtype, np.array(y).tobytes(), m.dllpath))
        if a.data.get("release_reload"):
            # drop the library handle and load the cached file again
            m.release()
            k = m.make_kernel([Q])
            y = call_kernel(k, dict(REQUESTS[model]))
            out.append((model, dtype, np.array(y).tobytes(), m.dllpath))
    # a long-lived user of the library: stays alive (library mapped) while later
    # builders come and go, then evaluates once more on the kernel it holds
    for _ in range(int(a.data.get("linger") or 0)):
        a.sched.yield_point("idle")
    if a.data.get("linger") and out:
        y = call_kernel(k, dict(REQUESTS[model]))
        out.append((model, dtype, np.array(y).tobytes(), m.dllpath))
    return out


def base_config(actors):
    return {"actors": actors, "policy": {"kind": "uniform"}, "sched_seed": 0,
            "cc_plans": [], "kills": [], "fresh": "auto"}


def run_one(cfg, decisions=None, keep_events=False):
    from sasmodels import kerneldll as kd
    G["run_counter"] += 1
    run_dir = os.path.join(G["root"], "w%d-r%d" % (os.getpid(), G["run_counter"]))
    os.makedirs(run_dir)
    world = World(cfg, run_dir)
    saved_path = kd.SAS_DLL_PATH
    had_open = "open" in vars(kd)
    saved_open = vars(kd).get("open")

    def tracked_open(*args, **kw):
        world.note_syscall("io:open")
        f = open(*args, **kw)
        try:
            world.track_fd(f.fileno())
        except (OSError, ValueError):
            pass
        return f
    kd.open = tracked_open
    # the seams: whatever names the module under test uses for os, subprocess, tempfile
    # and ctypes (modules under any alias, or functions imported from them) are bound
    # to the simulator's stand-ins
    real = seams.real_modules()
    os_proxy = seams.OsProxy(world)
    rebound = seams.rebind_from_imports(kd, [(real["os.path"], os_proxy.path), (real["os"], os_proxy),
                                             (real["subprocess"], seams.SubprocessShim(world)),
                                             (real["tempfile"], seams.TempfileProxy(world)),
                                             (real["ctypes"], seams.CtProxy(world))])
    kd.SAS_DLL_PATH = world.cache_dir
    # (tempfile helpers reached without going through the proxy - TemporaryDirectory,
    # NamedTemporaryFile - still create their files in this run's temporary directory)
    import tempfile as _tempfile
    saved_tempdir = _tempfile.tempdir
    _tempfile.tempdir = world.tmp_dir
    G["names"][0] = 0
    import atexit as _atexit
    real_register = _atexit.register

    def _register(fn, *args, **kw):
        me = sched.current() if sched is not None else None
        if me is None:
            return real_register(fn, *args, **kw)
        me.data.setdefault("atexit", []).append((fn, args, kw))
        world.probe("atexit_handler_registered")
        return fn
    sched = None
    _atexit.register = _register
    xdev_saved = None
    if cfg.get("xdev"):
        # TMPDIR and the cache directory on different file systems (tmpfs /tmp,
        # cache under $HOME): rename/replace/link between them fail with EXDEV,
        # for every module (shutil.move then falls back to copy + unlink)
        import errno

        def _fs(p):
            p = os.path.abspath(p)
            return "tmp" if p.startswith(world.tmp_dir + os.sep) else \
                "cache" if p.startswith(world.cache_dir + os.sep) else "other"

        def _guard(real):
            def wrapper(src, dst, *a, **kw):
                if _fs(src) != _fs(dst) and "other" not in (_fs(src), _fs(dst)):
                    world.probe("cross_device_rename_refused")
                    raise OSError(errno.EXDEV, "Invalid cross-device link (simulated)", src)
                return real(src, dst, *a, **kw)
            return wrapper
        xdev_saved = (os.rename, os.replace, os.link)
        os.rename, os.replace, os.link = _guard(os.rename), _guard(os.replace), _guard(os.link)
    # (a packaging run builds "all builtin models": here, the ones its specification names)
    from sasmodels import core as _core
    real_list_models = _core.list_models

    def _list_models(*a_, **kw_):
        me = sched.current() if sched is not None else None
        pre = me.data.get("precompile") if me is not None else None
        return [m for m, _ in pre] if pre else real_list_models(*a_, **kw_)
    _core.list_models = _list_models
    run_prefix = run_dir + os.sep
    restore_hooks = seams.install_global_hooks(world, os_proxy, lambda p: p.startswith(run_prefix))
    harness_error = None
    n_proc = len(cfg["actors"])
    solo_max = G.get("solo_max", 400)
    step_cap = cfg.get("step_cap") or 20 * solo_max * (n_proc + 1)
    if decisions is not None:
        chooser = baton.ReplayChooser(decisions)
    else:
        chooser = baton.make_chooser(cfg["policy"], random.Random(cfg["sched_seed"]))
    sched = baton.Scheduler(chooser, step_cap, trace_files=G["trace_files"],
                            on_step=world.on_step)
    world.sched = sched
    world.init_private_state()
    sched.on_switch_out = world.switch_out
    sched.on_switch_in = world.switch_in
    procs = []
    fresh = None
    try:
        for spec in cfg["actors"]:
            a = sched.spawn(spec["name"], proc_main, start_at=spec.get("start_at", 0))
            a.data["loads"] = [tuple(x) for x in spec["loads"]]
            if spec.get("forked_from"):
                a.data["forked_from"] = spec["forked_from"]
            a.data["release_reload"] = bool(spec.get("release_reload"))
            if spec.get("pid") is not None:
                a.data["pid"] = int(spec["pid"])
            if spec.get("precompile"):
                a.data["precompile"] = [tuple(x) for x in spec["precompile"]]
                a.data["world"] = world
            a.data["linger"] = int(spec.get("linger") or 0)
            procs.append(a)
        sched.run()
        phase1_reason = sched.stop_reason
        if phase1_reason == "deadlock":
            harness_error = "deadlock: %r" % [(a.name, a.state, str(a.blocked_on))
                                             for a in sched.actors]
        wanted = cfg.get("fresh", "auto")
        if wanted and harness_error is None and phase1_reason == "quiescent":
            reqs = []
            for spec in cfg["actors"]:
                for x in list(spec["loads"]) + list(spec.get("precompile") or []):
                    if tuple(x) not in reqs:
                        reqs.append(tuple(x))
            sched.events.append((sched.step, "-", "quiescent", None))
            fresh = sched.spawn("F", proc_main, start_at=sched.step)
            fresh.data["loads"] = reqs
            pids = [spec["pid"] for spec in cfg["actors"] if spec.get("pid") is not None]
            if pids:
                fresh.data["pid"] = pids[0]       # the container is started again: its main process has the same id
            fresh_start = sched.step
            sched.step_cap = sched.step + 4 * solo_max * len(reqs)
            sched.run()
        # ---- verdicts -------------------------------------------------------
        vio = world.violations
        for a in procs + ([fresh] if fresh is not None else []):
            inv = "I2" if a is fresh else "I1"
            if a.state == "killed":
                continue
            if a.state != "done":
                world.violation("I4", a.name, "no progress: still %s after %d steps "
                                "(stop reason %s)" % (a.state, sched.step, sched.stop_reason))
                continue
            if a.exc is not None and a.exc[0] == "HarnessError":
                harness_error = a.exc[1]
                continue
            if a.exc is not None:
                exempt = (a.name in world.cc_failed_for and a.exc[0] == "RuntimeError"
                          and "compile failed" in a.exc[1])
                if a.name in world.io_failed_for and a.exc[0] in ("OSError", "PermissionError") and \
                        ("No space left" in a.exc[1] or "Permission denied (simulated)" in a.exc[1]):
                    exempt = True      # the process whose own system call failed may report it
                    world.probe("own_io_failure_reported")
                elif exempt:
                    world.probe("own_compile_failure_reported")
                if exempt:
                    pass
                else:
                    world.violation(inv, a.name, "process failed: %s: %s" %
                                    (a.exc[0], world.canon(a.exc[1])[:300]))
                continue
            for model, dtype, ybytes, dllpath in a.result:
                world.final_paths.setdefault((model, dtype), set()).add(dllpath)
                if ybytes != G["golden"][(model, dtype)]["expected"]:
                    world.violation(inv, a.name, "wrong values from %s/%s" % (model, dtype))
        if sched.stop_reason == "quiescent":
            for (model, dtype), paths in sorted(world.final_paths.items()):
                for p in sorted(paths):
                    if os.path.exists(p):
                        with open(p, "rb") as fid:
                            data = fid.read()
                        gb = G["golden"][(model, dtype)]["bytes"]
                        if data != gb:
                            world.violation("I5", "-", "%d of %d bytes left in place under the "
                                            "final cache name %s" % (len(data), len(gb), world.canon(p)))
        # ---- seam bypass ----------------------------------------------------
        libs = [f for f in (os.listdir(world.cache_dir) if os.path.isdir(world.cache_dir) else [])
                if f.endswith(".so")]
        if libs and world.cc_count == 0:
            harness_error = "a library appeared without the compiler seam being entered"
        if any(a.state == "done" and a.exc is None and a.data.get("loads") for a in procs) and world.loads == 0:
            harness_error = "a kernel was evaluated without the loader seam being entered"
    except baton.HarnessError as exc:
        harness_error = str(exc)
    finally:
        try:
            sched.teardown()
        except baton.HarnessError as exc:
            harness_error = harness_error or str(exc)
        world.restore_pristine()
        _atexit.register = real_register
        restore_hooks()
        _core.list_models = real_list_models
        if xdev_saved is not None:
            os.rename, os.replace, os.link = xdev_saved
        kd.SAS_DLL_PATH = saved_path
        _tempfile.tempdir = saved_tempdir
        for name, val in rebound.items():
            setattr(kd, name, val)
        if had_open:
            kd.open = saved_open
        else:
            del kd.open
        shutil.rmtree(run_dir, ignore_errors=True)
    # ---- summarise ------------------------------------------------------------
    world.violations.sort(key=lambda v: (v["step"] if v["inv"] in ("I3", "I6") else 1 << 60))
    header = {"cfg": cfg, "tree": G["tree"]["traced_sha"]}
    nontrivial = bool(world.fired) or sched.preempted_mid > 0
    res = {
        "digest": sched.digest(header),
        "shape": sched.shape(),
        "steps": sched.step,
        "switches": sched.switches,
        "preempted_mid": sched.preempted_mid,
        "fired": world.fired,
        "probes": world.probes,
        "violations": world.violations,
        "harness_error": harness_error,
        "nontrivial": nontrivial,
        "decisions": list(sched.decisions),
        "divergences": getattr(chooser, "divergences", 0),
        "n_events": len(sched.events),
        "stop_reason": sched.stop_reason,
    }
    if keep_events:
        res["events"] = [list(e) for e in sched.events]
    return res


# ------------------------------------------------------------ configuration

KILL_LABELS = [
    ("shutil.py:copyfileobj", "own"),
    ("cc:created", "own"), ("cc:piece", "own"), ("cc:piece", "own"), ("cc:exit", "own"),
    ("os:unlink", "own"), ("os:mkstemp", "own"), ("os:exists", "other"),
    ("cc:read_src", "own"), ("ld:open", "other"), ("os:replace", "own"), ("os:rename", "own"),
]


def gen_config(run_seed, tier):
    st = Streams(run_seed)
    w, f, c = st["workload"], st["faults"], st["config"]
    max_proc = 6 if tier == "quick" else 16
    r = c.random()
    if r < 0.6:
        n = c.randint(2, 4)
    elif r < 0.9:
        n = c.randint(2, max_proc)
    else:
        n = max_proc
    models = sorted(REQUESTS)
    main = (w.choice(models), w.choice(DTYPES) if w.random() < 0.3 else "double")
    mixed = w.random() < 0.25
    solo_max = G["solo_max"]
    actors = []
    stagger = c.choice(["none", "small", "wide"])
    for i in range(n):
        req = main
        if mixed and w.random() < 0.4:
            req = (w.choice(models), w.choice(DTYPES))
        loads = [list(req)]
        if w.random() < 0.15:
            loads.append(list(req) if w.random() < 0.5 else [w.choice(models), w.choice(DTYPES)])
        if stagger == "none" or i == 0:
            start = 0
        elif stagger == "small":
            start = c.randint(0, 40)
        else:
            start = c.randint(0, 2 * solo_max)
        actors.append({"name": "P%d" % i, "loads": loads, "start_at": start,
                       "release_reload": w.random() < 0.2,
                       "linger": w.choice([0, 0, 0, 60, 250, 600])})
    if n >= 3 and c.random() < 0.15:
        # a parent that builds some other model first and then forks its workers
        # (multiprocessing with the fork start method): the children inherit the
        # parent's module state as it is at the fork
        others = [m for m in models if m != main[0]]
        actors[0]["loads"] = [[c.choice(others), "double"]]
        actors[0]["start_at"] = 0
        fork_at = c.randint(solo_max // 2, 2 * solo_max)
        for a in actors[1:]:
            a["forked_from"] = "P0"
            a["start_at"] = fork_at + c.randint(0, 30)
    pk = c.random()
    if pk < 0.25:
        policy = {"kind": "uniform"}
    elif pk < 0.6:
        policy = {"kind": "sticky", "p": c.choice([0.5, 0.9, 0.97])}
    else:
        policy = {"kind": "pct", "d": c.choice([1, 2, 3]), "horizon": solo_max * n}
    plans = []
    for _ in range(2 * n + 4):
        k = c.choice([1, 2, 2, 3, 4])
        cuts = sorted(c.random() for _ in range(k - 1))
        plans.append({"cuts": cuts, "mode": c.choice(["append", "append", "sparse"]), "fail": None})
    pk_ = st["packager"]
    packager = None
    if pk_.random() < 0.12:
        # a packaging run into the same directory, alongside the loaders
        packager = {"name": "K0", "loads": [], "start_at": pk_.randint(0, solo_max),
                    "precompile": [[pk_.choice(["sphere", "cylinder"]), "double"]]}
        actors.append(packager)
    ns_ = st["namespaces"]
    if ns_.random() < 0.15:
        # containers sharing the cache directory: each one's main process is pid 1
        for a in actors:
            if not a.get("forked_from") and ns_.random() < 0.7:
                a["pid"] = 1
    cfg = {"actors": actors, "policy": policy, "sched_seed": st["schedule"].getrandbits(48),
           "cc_plans": plans, "kills": [], "fresh": "auto", "xdev": c.random() < 0.4}
    if packager and pk_.random() < 0.6:
        cfg["kills"].append({"target": "K0", "group": pk_.random() < 0.5,
                             "when": {"step": pk_.randint(1, 2 * solo_max)}})
    # ---- faults: a swarm-style subset; one third of runs are fault-free ----
    if f.random() < 0.67:
        enabled = [k for k in ("kill_group", "kill_parent", "cc_fail", "io_fail") if f.random() < 0.6] \
            or [f.choice(["kill_group", "kill_parent", "cc_fail"])]
        for _ in range(f.choice([1, 1, 2])):
            kind = f.choice(enabled)
            if kind == "io_fail":
                cfg.setdefault("io_faults", []).append(
                    {"target": "P%d" % f.randrange(n),
                     "kind": f.choice(["enospc_source_write", "enospc_mkdtemp", "eacces_replace"])})
            elif kind == "cc_fail":
                idx = f.randrange(0, min(n, 3))
                k = len(plans[idx]["cuts"]) + 1
                plans[idx]["fail"] = {"after": f.randint(0, k), "how": f.choice(["clean", "killed", "killed"])}
            else:
                target = "P%d" % f.randrange(n)
                if f.random() < 0.5:
                    label, scope = f.choice(KILL_LABELS)
                    when = {"label": label, "scope": scope, "nth": f.choice([1, 1, 1, 2, 3])}
                else:
                    when = {"step": f.randint(1, solo_max * min(n, 3))}
                cfg["kills"].append({"target": target, "group": kind == "kill_group", "when": when})
    return cfg


def sweep_configs(tier):
    """Directed families (coverage floor, DESIGN 3.6): single-crash sweep and
    single-pre-emption sweep.  Reported separately; not the deciding search."""
    out = []
    model = "c18plug" if tier == "quick" else "sphere"
    solo = G["solo"][model]
    stride = 1 if tier != "quick" else 2
    # single crash: a solo build killed at every step, both kill kinds
    for group in (True, False):
        for step in range(1, solo + 1, stride):
            cfg = base_config([{"name": "P0", "loads": [[model, "double"]], "start_at": 0}])
            cfg["cc_plans"] = [{"cuts": [0.5], "mode": "append", "fail": None}]
            cfg["kills"] = [{"target": "P0", "group": group, "when": {"step": step}}]
            cfg["policy"] = {"kind": "sticky", "p": 1.0}
            cfg["family"] = "single_crash"
            cfg["xdev"] = bool(step % 2)
            out.append(cfg)
    # a packaging run (precompile_dlls into the loaders' directory) killed at every step, alone
    # and with a loader arriving while it is stopped there
    psolo = G["solo"].get("__packager__") or (2 * solo)
    for step in range(1, psolo + 1, 2 * stride):
        for with_loader in (False, True):
            actors = [{"name": "K0", "loads": [], "start_at": 0, "precompile": [["sphere", "double"]]}]
            if with_loader:
                actors.append({"name": "P0", "loads": [["sphere", "double"]], "start_at": 0})
            cfg = base_config(actors)
            cfg["cc_plans"] = [{"cuts": [0.5], "mode": "append", "fail": None}] * 2
            if with_loader:
                cfg["fixed_schedule"] = ["K0"] * step + ["P0"] * (3 * G["solo"]["sphere"])
            else:
                cfg["policy"] = {"kind": "sticky", "p": 1.0}
            cfg["kills"] = [{"target": "K0", "group": bool(step % 4 < 2), "when": {"step": step}}]
            cfg["family"] = "packaging_run_crash"
            out.append(cfg)
    # single pre-emption: P0 paused at step i while P1 runs to completion
    for first, second in (("P0", "P1"), ("P1", "P0")):
        for step in range(1, solo + 1, stride):
            cfg = base_config([{"name": "P0", "loads": [[model, "double"]], "start_at": 0},
                               {"name": "P1", "loads": [[model, "double"]], "start_at": 0}])
            cfg["cc_plans"] = [{"cuts": [0.5], "mode": "append", "fail": None}] * 2
            cfg["fixed_schedule"] = [first] * step + [second] * (3 * solo)
            cfg["family"] = "single_preemption"
            out.append(cfg)
    # ... the same with both processes carrying the same process id (two containers)
    for step in range(1, solo + 1, 2 * stride):
        cfg = base_config([{"name": "P0", "loads": [[model, "double"]], "start_at": 0, "pid": 1},
                           {"name": "P1", "loads": [[model, "double"]], "start_at": 0, "pid": 1}])
        cfg["cc_plans"] = [{"cuts": [0.5], "mode": "append", "fail": None}] * 2
        cfg["fixed_schedule"] = ["P0"] * step + ["P1"] * (3 * solo)
        cfg["family"] = "same_pid_two_namespaces"
        out.append(cfg)
    # double pre-emption: P0 paused at step i, P1 paused at step j, P2 runs to completion, then P1, then P0
    dstride = 24 if tier == "quick" else 8
    for i in range(2, solo + 1, dstride):
        for j in range(2, solo + 1, dstride):
            cfg = base_config([{"name": "P%d" % k, "loads": [[model, "double"]], "start_at": 0} for k in range(3)])
            cfg["cc_plans"] = [{"cuts": [0.5], "mode": "append", "fail": None}] * 3
            cfg["fixed_schedule"] = ["P0"] * i + ["P1"] * j + ["P2"] * (3 * solo) + ["P1"] * (3 * solo)
            cfg["family"] = "double_preemption"
            out.append(cfg)
    # ... and the same with P1 killed (with its compiler) where it was paused
    for i in range(2, solo + 1, dstride):
        for j in range(2, solo + 1, dstride):
            cfg = base_config([{"name": "P%d" % k, "loads": [[model, "double"]], "start_at": 0} for k in range(3)])
            cfg["cc_plans"] = [{"cuts": [0.5], "mode": "append", "fail": None}] * 3
            cfg["fixed_schedule"] = ["P0"] * i + ["P1"] * j + ["P2"] * (3 * solo)
            cfg["kills"] = [{"target": "P1", "group": True, "when": {"step": i + j}}]
            cfg["family"] = "preemption_plus_kill"
            out.append(cfg)
    # three processes, pauses placed right after the points where a solo build touches the
    # file system (every os call, open, compiler step): P0 runs i steps, P1 j steps, P0 finishes,
    # P1 runs k more steps, P2 runs to completion, P1 finishes.  Races of depth three live in
    # one- or two-line windows that uniform random schedules almost never hit.
    pos = sorted(set(p_ + d_ for p_ in G["event_steps"][model] for d_ in (1, 2)))
    triples = [(i, j, k) for i in pos for j in pos for k in pos]
    triples = random.Random(18).sample(triples, min(300 if tier == "quick" else 4000, len(triples)))
    big = 3 * solo
    for (i, j, k) in triples:
        cfg = base_config([{"name": "P%d" % n_, "loads": [[model, "double"]], "start_at": 0} for n_ in range(3)])
        cfg["cc_plans"] = [{"cuts": [0.5], "mode": "append", "fail": None}] * 3
        cfg["fixed_schedule"] = ["P0"] * i + ["P1"] * j + ["P0"] * big + ["P1"] * k + ["P2"] * big + ["P1"] * big
        cfg["family"] = "triple_after_events"
        out.append(cfg)
    # three processes each stopped at a point of interest, then serialised: P0 runs a steps
    # (a: while its compiler runs), P1 b steps, P2 c steps, P0 finishes, P1 advances into its
    # own compile (absolute position b2), P2 finishes, P1 finishes.  This is the shape of
    # lock-file and claim-directory races (lookup, claim and release interleaved three ways).
    ev = G["event_steps"][model]
    cc_steps = [p_ for p_ in ev if p_ >= (min(ev) + 1)]
    mids = sorted(set(pos[len(pos) // 2:len(pos) // 2 + 6]))        # positions inside the compile
    a_choices = mids[:2]
    quads = [(a_, b_, c_, b2) for a_ in a_choices for b_ in pos for c_ in pos for b2 in mids[1:4] if b2 > b_]
    if tier == "quick":
        quads = random.Random(19).sample(quads, min(500, len(quads)))
    for (a_, b_, c_, b2) in quads:
        cfg = base_config([{"name": "P%d" % n_, "loads": [[model, "double"]], "start_at": 0} for n_ in range(3)])
        cfg["cc_plans"] = [{"cuts": [0.5], "mode": "append", "fail": None}] * 3
        cfg["fixed_schedule"] = (["P0"] * a_ + ["P1"] * b_ + ["P2"] * c_ + ["P0"] * big + ["P1"] * (b2 - b_)
                                 + ["P2"] * big + ["P1"] * big)
        cfg["family"] = "three_staggered"
        out.append(cfg)
    # a parent that has built another model, then forks two workers that race on this one
    other = "sphere" if model != "sphere" else "cylinder"
    for seed in range(6 if tier == "quick" else 24):
        for policy in ({"kind": "uniform"}, {"kind": "pct", "d": 2, "horizon": 3 * solo}):
            cfg = base_config([
                {"name": "P0", "loads": [[other, "double"]], "start_at": 0},
                {"name": "P1", "loads": [[model, "double"]], "start_at": 2 * G["solo_max"], "forked_from": "P0"},
                {"name": "P2", "loads": [[model, "double"]], "start_at": 2 * G["solo_max"], "forked_from": "P0"},
                {"name": "P3", "loads": [[model, "double"]], "start_at": 2 * G["solo_max"] + solo // 2,
                 "forked_from": "P0"}])
            cfg["cc_plans"] = [{"cuts": [0.5], "mode": "append", "fail": None}] * 4
            cfg["policy"] = policy
            cfg["sched_seed"] = seed
            cfg["family"] = "forked_workers"
            out.append(cfg)
    # every failing system call, alone and next to a second process, on one or two file systems
    for kind in ("enospc_source_write", "enospc_mkdtemp", "eacces_replace"):
        for n in (1, 2):
            for xdev in (False, True):
                cfg = base_config([{"name": "P%d" % i, "loads": [[model, "double"]], "start_at": 0}
                                   for i in range(n)])
                cfg["cc_plans"] = [{"cuts": [0.5], "mode": "append", "fail": None}] * 2
                cfg["io_faults"] = [{"target": "P0", "kind": kind}]
                cfg["xdev"] = xdev
                cfg["policy"] = {"kind": "sticky", "p": 0.9}
                cfg["family"] = "failing_system_call"
                out.append(cfg)
    # compiler failure at every piece, both ways
    for how in ("clean", "killed"):
        for after in range(0, 4):
            cfg = base_config([{"name": "P0", "loads": [[model, "double"]], "start_at": 0}])
            cfg["cc_plans"] = [{"cuts": [0.3, 0.6], "mode": "append",
                                "fail": {"after": after, "how": how}}]
            cfg["family"] = "compiler_failure"
            out.append(cfg)
    return out


def run_config(cfg, decisions=None, keep_events=False):
    if decisions is None and cfg.get("fixed_schedule"):
        decisions = cfg["fixed_schedule"]
    return run_one(cfg, decisions=decisions, keep_events=keep_events)


# ------------------------------------------------------------ minimisation

def primary(res):
    return res["violations"][0]["inv"] if res["violations"] else None


def shrink_candidates(cfg, decisions):
    """Yield (cfg', decisions') simplifications, coarse first."""
    import copy
    names = [a["name"] for a in cfg["actors"]]
    # drop a process
    if len(names) > 1:
        for nm in names:
            c = copy.deepcopy(cfg)
            c["actors"] = [a for a in c["actors"] if a["name"] != nm]
            c["kills"] = [k for k in c["kills"] if k["target"] != nm]
            c["io_faults"] = [k for k in c.get("io_faults", []) if k["target"] != nm]
            yield c, [d for d in decisions if d != nm]
    # drop a fault
    for i in range(len(cfg["kills"])):
        c = copy.deepcopy(cfg)
        del c["kills"][i]
        yield c, decisions
    for i in range(len(cfg.get("io_faults", []))):
        c = copy.deepcopy(cfg)
        del c["io_faults"][i]
        yield c, decisions
    if cfg.get("xdev"):
        c = copy.deepcopy(cfg)
        c["xdev"] = False
        yield c, decisions
    for i, p in enumerate(cfg["cc_plans"]):
        if p.get("fail"):
            c = copy.deepcopy(cfg)
            c["cc_plans"][i]["fail"] = None
            yield c, decisions
    # simpler loads, no stagger, simpler model
    for i, a in enumerate(cfg["actors"]):
        if len(a["loads"]) > 1:
            c = copy.deepcopy(cfg)
            c["actors"][i]["loads"] = a["loads"][:1]
            yield c, decisions
        if a.get("start_at"):
            c = copy.deepcopy(cfg)
            c["actors"][i]["start_at"] = 0
            yield c, decisions
    if any(x != ["c18plug", "double"] for a in cfg["actors"] for x in a["loads"]):
        c = copy.deepcopy(cfg)
        for a in c["actors"]:
            a["loads"] = [["c18plug", "double"] for _ in a["loads"]]
        yield c, decisions
    # fewer compiler pieces
    for i, p in enumerate(cfg["cc_plans"]):
        if len(p["cuts"]) > 1 or p["mode"] != "append":
            c = copy.deepcopy(cfg)
            c["cc_plans"][i]["cuts"] = p["cuts"][:1]
            c["cc_plans"][i]["mode"] = "append"
            yield c, decisions


def sample_of(cfg, res):
    return {"actors": [[a["name"], a["loads"], a.get("start_at", 0)] + ([a["forked_from"]] if a.get("forked_from") else [])
                       for a in cfg["actors"]],
            "policy": cfg["policy"]["kind"], "kills": cfg["kills"], "xdev": bool(cfg.get("xdev")),
            "cc_fail": [p["fail"] for p in cfg["cc_plans"] if p.get("fail")],
            "io_faults": cfg.get("io_faults", []),
            "steps": res["steps"], "switches": res["switches"],
            "fired": res["fired"], "violations": len(res["violations"])}


RULE = ("one case = one simulated execution: 1..16 logical processes (real threads, baton-passed) "
        "running the real load_model/make_dll/compile_model/_load_dll/call_kernel against one empty "
        "cache directory, pre-empted at every line of kerneldll.py and every step of the scripted "
        "compiler under a seeded policy (uniform / sticky / PCT), with seeded kills (parent-only or "
        "group), compiler failures and a fresh process after quiescence. distinct = distinct sha256 "
        "of the full event log; non-trivial = at least one fault fired or at least one pre-emption "
        "separated two steps of a live process")

ASSUMPTIONS = [
    "the compiler is a scripted model of `cc ... -o OUT` on unix (unlink ordinary output, create, fill in 1-4 pieces, exit); it hands out the bytes of one real build of the same source made at check start",
    "simulated processes share one interpreter; what they share beyond the file system (module caches) is read-mostly; the dlopen handle table is neutralised by loading the golden file when the bytes at the path are a complete build",
    "pre-emption granularity is one source line of sasmodels/kerneldll.py (and shutil.py) plus every compiler step and file-system seam call",
    "process kill = the thread is never scheduled again (no finally/flush runs); power loss (un-fsynced data lost) is not modelled because the property speaks of killed processes",
    "Windows toolchains and GPU program caches are not exercised",
]

REAL_STUB = {
    "real": ["sasmodels.core.load_model", "generate.make_source/convert_type", "kerneldll.make_dll",
             "kerneldll.compile_model", "kerneldll.DllModel._load_dll/make_kernel",
             "direct_model.call_kernel", "compiled kernel (dlopen of the golden file)",
             "file system (tmpfs scratch dir)"],
    "stub": ["C compiler process (scripted, piecewise writer)", "dynamic loader guard (compares bytes, then real dlopen)",
             "os.getpid / tempfile candidate names (determinism)", "process = baton-passed thread"],
}

SCHEDULE_SHRINK = True
CHUNK = 16
CHUNK_TIMEOUT = 300
MINIMISE_BUDGET = 15
EXPECTED_PROBES = [
    "lookup_during_foreign_compile", "load_during_foreign_compile", "two_compilers_same_library",
    "kill_before_output", "kill_after_partial", "kill_after_full_output", "kill_after_source_unlink",
    "orphan_compiler_running", "compiler_failed_with_partial_output", "cache_hit",
    "own_compile_failure_reported", "own_io_failure_reported", "forked_child_inherits_module_state",
]


def tree():
    return G["tree"]


def n_runs(tier):
    return 3000 if tier == "quick" else 60000


def budget(tier):
    return 150 if tier == "quick" else 1500


def violation_class(v):
    return v["inv"]
