#!/venv/bin/python
"""Confirm a seeded change and run a check against it.

  tools/seedcheck.py <seed-id> [--suite] [--demo] [--check C18 [--runs N]]

Creates scratch worktrees of /repo HEAD outside /repo and /verif, applies
seeded/<id>/patch.diff to one of them, optionally runs the repository's test
suite on it, the seed's demo on both (must FAIL modified / PASS clean), and
the given check with VERIF_REPO pointing at the modified tree (must exit 1
with a VIOLATION line).  Removes the worktrees afterwards.
"""
import argparse
import json
import os
import shutil
import subprocess
import sys
import tempfile

VERIF = os.path.dirname(os.path.dirname(os.path.abspath(__file__)))


def sh(cmd, **kw):
    return subprocess.run(cmd, capture_output=True, text=True, **kw)


def main():
    ap = argparse.ArgumentParser()
    ap.add_argument("seed")
    ap.add_argument("--suite", action="store_true")
    ap.add_argument("--demo", action="store_true")
    ap.add_argument("--check")
    ap.add_argument("--runs")
    ap.add_argument("--tier", default="quick")
    ap.add_argument("--root", default="seeded", help="seeded (property-breaking) or benign (property-preserving)")
    args = ap.parse_args()
    sdir = os.path.join(VERIF, args.root, args.seed)
    base = tempfile.mkdtemp(prefix="seedcheck-", dir="/tmp")
    mod, clean = os.path.join(base, "mod"), os.path.join(base, "clean")
    out = {"seed": args.seed}
    try:
        for d in (mod, clean):
            r = sh(["git", "-C", "/repo", "worktree", "add", "-q", "--detach", d, "HEAD"])
            assert r.returncode == 0, r.stderr
        r = sh(["git", "-C", mod, "apply", os.path.join(sdir, "patch.diff")])
        out["patch_applies"] = r.returncode == 0
        if r.returncode:
            print(r.stderr)
            return 2
        env = dict(os.environ, PYTHONDONTWRITEBYTECODE="1")
        if args.suite:
            r = sh(["/venv/bin/python", "-m", "pytest", "-q", "-p", "no:cacheprovider", "--timeout=900",
                    "--continue-on-collection-errors"], cwd=mod, env=dict(env, PYTHONPATH=mod))
            out["suite"] = r.stdout.strip().splitlines()[-1] if r.stdout.strip() else r.stderr[-200:]
        if args.demo:
            ddir = os.path.join(base, "demo")
            os.makedirs(ddir)
            for f in os.listdir(sdir):
                if f.endswith(".py"):
                    shutil.copy(os.path.join(sdir, f), ddir)
            for name, tree in (("demo_modified", mod), ("demo_clean", clean)):
                r = sh(["timeout", "300", "/venv/bin/python", os.path.join(ddir, "demo.py")],
                       env=dict(env, DEMO_TREE=tree, PYTHONPATH=tree), cwd=ddir)
                tail = (r.stdout.strip().splitlines() or [""])[-1][:200]
                out[name] = {"exit": r.returncode, "last_line": tail}
        for check in (args.check.split(",") if args.check else []):
            cmd = ["timeout", "3000", os.path.join(VERIF, "run"), check, "--tier", args.tier]
            if args.runs:
                cmd += ["--runs", args.runs]
            r = sh(cmd, env=dict(env, VERIF_REPO=mod), cwd=VERIF)
            lines = r.stdout.splitlines()
            out.setdefault("checks", []).append(
                {"check": check, "exit": r.returncode,
                 "violations": [l[:300] for l in lines if l.startswith("violation:")][:3],
                 "violation_lines": sum(1 for l in lines if l.startswith("VIOLATION")),
                 "known": [l[:200] for l in lines if l.startswith("KNOWN-FINDING")][:3],
                 "harness": [l[:300] for l in lines if l.startswith("HARNESS")][:3],
                 "stderr_tail": r.stderr[-300:] if r.returncode not in (0, 1) else ""})
        print(json.dumps(out, indent=1))
        return 0
    finally:
        for d in (mod, clean):
            sh(["git", "-C", "/repo", "worktree", "remove", "--force", d])
        shutil.rmtree(base, ignore_errors=True)
        sh(["git", "-C", "/repo", "worktree", "prune"])


if __name__ == "__main__":
    sys.exit(main())
