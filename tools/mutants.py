#!/venv/bin/python
"""Sensitivity self-test: apply each hand-made mutant (and each seeded change
under seeded/) to a scratch worktree of /repo HEAD and run the check that
should catch it.  Expected: exit 1 for breaking mutants, exit 0 for the
behaviour-preserving ones.

  tools/mutants.py [--only NAME_SUBSTRING] [--runs N]

Every mutant compiles and passes the repository's 101 tests (except those
marked crude); that was confirmed when each was written and can be
re-confirmed with --suite.
"""
import argparse
import json
import os
import shutil
import subprocess
import sys
import tempfile

VERIF = os.path.dirname(os.path.dirname(os.path.abspath(__file__)))
K = "sasmodels/kerneldll.py"
C = "sasmodels/custom/__init__.py"
GEN = "sasmodels/generate.py"
S = "sasmodels/sasview_model.py"
D = "sasmodels/direct_model.py"
P = "sasmodels/kernelpy.py"
KN = "sasmodels/kernel.py"
T = "sasmodels/kernel_iq.c"

BUILD_OPEN = '''        build_dir = tempfile.mkdtemp(prefix="build_", dir=os.path.dirname(dll))
        try:
            output = joinpath(build_dir, os.path.basename(dll))'''

# (name, check, expected exit, [(file, old, new), ...])
MUTANTS = [
    ("c18_shared_build_dir", "C18", 1, [(K, BUILD_OPEN, '''        build_dir = joinpath(os.path.dirname(dll), "build")
        os.makedirs(build_dir, exist_ok=True)
        try:
            output = joinpath(build_dir, os.path.basename(dll))''')]),
    ("c18_copy_instead_of_rename", "C18", 1, [(K, "                os.replace(output, dll)",
                                                "                shutil.copyfile(output, dll)")]),
    ("c18_publish_on_failure", "C18", 1, [(K, '''        finally:
            shutil.rmtree(build_dir, ignore_errors=True)''', '''        finally:
            if os.path.exists(output) and not os.path.exists(dll):
                os.replace(output, dll)
            shutil.rmtree(build_dir, ignore_errors=True)''')]),
    ("c18_stale_lockfile", "C18", 1, [(K, '''        build_dir = tempfile.mkdtemp(prefix="build_", dir=os.path.dirname(dll))''',
                                       '''        lock = dll + ".lock"
        while True:
            try:
                os.close(os.open(lock, os.O_CREAT|os.O_EXCL|os.O_WRONLY))
                break
            except OSError:
                pass
        build_dir = tempfile.mkdtemp(prefix="build_", dir=os.path.dirname(dll))'''),
                                      (K, '''            shutil.rmtree(build_dir, ignore_errors=True)
        # Comment''', '''            shutil.rmtree(build_dir, ignore_errors=True)
            os.unlink(lock)
        # Comment''')]),
    ("c18_copy_fallback_when_rename_fails", "C18", 1, [(K, '''                if not os.path.exists(dll):
                    raise''', '''                shutil.copyfile(output, dll)''')]),
    ("c18_in_place_compile", "C18", 1, [(K, "            output = joinpath(build_dir, os.path.basename(dll))",
                                         "            output = dll")]),
    # (counted as benign until the eighteenth seeded round: process ids are unique only inside
    # one pid namespace, and two containers sharing the cache directory are both "pid 1")
    ("c18_pid_build_dir", "C18", 1, [(K, BUILD_OPEN, '''        build_dir = joinpath(os.path.dirname(dll), "build_%d"%os.getpid())
        os.makedirs(build_dir, exist_ok=True)
        try:
            output = joinpath(build_dir, os.path.basename(dll))''')]),
    # a per-process memo of the build directory keyed by pid: private to every
    # real process, forked or not.  Must stay silent (the simulator keeps
    # kerneldll's module data private per simulated process).
    ("c18_benign_build_dir_memo_per_pid", "C18", 0, [
        (K, "def dll_name(model_file, dtype):", "_BUILD_DIRS = {}\n\ndef dll_name(model_file, dtype):"),
        (K, BUILD_OPEN, '''        _key = (os.getpid(), os.path.dirname(dll))
        if _key not in _BUILD_DIRS or not os.path.isdir(_BUILD_DIRS[_key]):
            _BUILD_DIRS[_key] = tempfile.mkdtemp(prefix="build_", dir=os.path.dirname(dll))
        build_dir = _BUILD_DIRS[_key]
        try:
            output = joinpath(build_dir, os.path.basename(dll))'''),
        (K, "            shutil.rmtree(build_dir, ignore_errors=True)\n        # Comment", "            pass\n        # Comment")]),
    ("c18_benign_rename", "C18", 0, [(K, "                os.replace(output, dll)", "                os.rename(output, dll)")]),
    ("c17_name_without_bits", "C17", 1, [(K, 'basename = "sas%d_%s"%(bits, model_file)', 'basename = "sas_%s"%(model_file,)')]),
    ("c17_tag_from_model_id", "C17", 1, [(K, 'model_file = model_info.id + "_" + generate.tag_source(source)',
                                          'model_file = model_info.id + "_" + generate.tag_source(model_info.id + str(model_info.parameters.npars))')]),
    ("c17_c_sources_not_dependencies", "C17", 1, [(C, "            _MODULE_DEPENDS[path].update(_find_sources(path, c_sources))", "            pass")]),
    ("c17_template_reload_lt", "C17", 1, [(GEN, "mtime > _template_cache[filename][0]", "mtime < _template_cache[filename][0]")]),
    ("c17_reload_only_if_newer_than_newest", "C17", 1, [(C, "    return any(cache_times.get(p, None) != os.path.getmtime(p) for p in depends)",
                                                         "    newest = max(cache_times.values()) if cache_times else -1\n    return any(newest < os.path.getmtime(p) for p in depends)")]),
    ("c17_plugins_through_bytecode_cache", "C17", 1, [(C, "        if path.endswith('.py') and hasattr(spec.loader, 'source_to_code'):",
                                                       "        if False:")]),
    ("c17_depends_frozen_after_first_load", "C17", 1, [
        (C, "        _MODULE_DEPENDS[path] = set([path])", "        _MODULE_DEPENDS.setdefault(path, set([path]))"),
        (C, "            _MODULE_DEPENDS[path].update(_find_sources(path, c_sources))",
         "            if len(_MODULE_DEPENDS[path]) == 1:\n                _MODULE_DEPENDS[path].update(_find_sources(path, c_sources))")]),
    ("c17_reload_on_top_of_old_namespace", "C17", 1, [
        (C, "            exec(code, module.__dict__)",
         "            module.__dict__.update((k, v) for k, v in _PREVIOUS.get(path, {}).items() if not k.startswith('__'))\n"
         "            exec(code, module.__dict__)\n"
         "            _PREVIOUS[path] = dict(module.__dict__)"),
        (C, "_MODULE_CACHE = {}", "_PREVIOUS = {}\n_MODULE_CACHE = {}")]),
    ("c17_benign_template_ge", "C17", 0, [(GEN, "mtime > _template_cache[filename][0]", "mtime >= _template_cache[filename][0]")]),
    ("c17_benign_always_reload", "C17", 0, [(C, "    return any(cache_times.get(p, None) != os.path.getmtime(p) for p in depends)", "    return True")]),
    ("c11_no_lock", "C11", 1, [(S, '''        with calculation_lock:
            return self._calculate_Iq(qx, qy)''', '''        return self._calculate_Iq(qx, qy)''')]),
    ("c11_get_mesh_pops_callers_dict", "C11", 1, [(D, '''    values = values.copy()
    mesh = [''', '''    mesh = [''')]),
    ("c11_callfq_pops_callers_dict", "C11", 1, [(D, "    pars = pars.copy()\n    R_eff_type", "    R_eff_type")]),
    ("c11_python_vector_not_reset", "C11", 1, [(P, "    parameters[:] = values[2:n_pars+2]\n",
                                                "    if call_details.num_active == 0: parameters[:] = values[2:n_pars+2]\n")]),
    ("c11_fq_returns_view", "C11", 1, [(KN, "        F2 = self.result[0:nout*self.q_input.nq:nout]/total_weight",
                                        "        F2 = self.result[0:nout*self.q_input.nq:nout]\n        if total_weight != 1.0: F2 = F2/total_weight")]),
    ("c11_model_on_base_class", "C11", 1, [(S, "            self.__class__._model = core.build_model(self._model_info)",
                                            "            SasviewModel._model = core.build_model(self._model_info)")]),
    ("c11_empty_mesh_buffer_not_cleared", "C11", 1, [(K, "            self.result[:] = 0.\n", "            pass\n")]),
    ("c01_close_gt", "C01", 1, [(T, "    if (step >= pd_stop) break; \\", "    if (step > pd_stop) break; \\")]),
    ("c01_form_volume_not_carried", "C01", 1, [(T, "    double weighted_form = (pd_start == 0 ? 0.0 : result[nq+1]);", "    double weighted_form = 0.0;")]),
    ("c01_cutoff_ge", "C01", 1, [(T, "    if (weight > cutoff) {", "    if (weight >= cutoff) {")]),
    ("c01_wrong_stride_outer_loops", "C01", 1, [(T, "  int i##_LOOP = (pd_start/details->pd_stride[_LOOP])%n##_LOOP;",
                                                 "  int i##_LOOP = (pd_start/(details->pd_stride[_LOOP]+(_LOOP>=2)))%n##_LOOP;")]),
    ("c01_truncated_point_uses_nominal", "C01", 1, [("sasmodels/details.py", "    scalars = [(dispersity[0] if len(dispersity) == 1 and p.type != 'orientation'\n                else value)",
                                                     "    scalars = [(value if len(dispersity) == 1 and p.type != 'orientation'\n                else value)")]),
    ("c01_benign_no_min_in_driver", "C01", 0, [(K, "            stop = min(start + step, call_details.num_eval)", "            stop = start + step")]),
]


def sh(cmd, **kw):
    return subprocess.run(cmd, capture_output=True, text=True, **kw)


def main():
    ap = argparse.ArgumentParser()
    ap.add_argument("--only", default="")
    ap.add_argument("--runs")
    ap.add_argument("--suite", action="store_true")
    ap.add_argument("--seeded", action="store_true", help="also run seeded/<id>/patch.diff")
    ap.add_argument("--benign", action="store_true",
                    help="also run benign/<id>/patch.diff (property-preserving redesigns) under every check, expecting 0")
    args = ap.parse_args()
    base = tempfile.mkdtemp(prefix="mutants-", dir="/tmp")
    tree = os.path.join(base, "tree")
    rows = []
    try:
        r = sh(["git", "-C", "/repo", "worktree", "add", "-q", "--detach", tree, "HEAD"])
        assert r.returncode == 0, r.stderr
        jobs = [(n, c, e, ("spec", ed)) for (n, c, e, ed) in MUTANTS]
        if args.seeded:
            sd = os.path.join(VERIF, "seeded")
            for sid in sorted(os.listdir(sd)):
                meta = json.load(open(os.path.join(sd, sid, "meta.json")))
                jobs.append(("seeded_" + sid, meta.get("check_with", meta["breaks_property"]), 1,
                             ("patch", os.path.join(sd, sid, "patch.diff"))))
        if args.benign:
            bd = os.path.join(VERIF, "benign")
            for bid in sorted(os.listdir(bd)):
                for check in ("C18", "C17", "C11", "C01"):
                    jobs.append(("benign_%s_%s" % (bid, check), check, 0, ("patch", os.path.join(bd, bid, "patch.diff"))))
        for name, check, expect, (kind, payload) in jobs:
            if args.only and args.only not in name:
                continue
            sh(["git", "-C", tree, "checkout", "-q", "--", "."])
            if kind == "spec":
                for f, old, new in payload:
                    p = os.path.join(tree, f)
                    s = open(p).read()
                    if old not in s:
                        rows.append((name, check, expect, "SPEC-STALE", ""))
                        break
                    open(p, "w").write(s.replace(old, new))
                else:
                    pass
                if rows and rows[-1][0] == name:
                    continue
            else:
                r = sh(["git", "-C", tree, "apply", payload])
                if r.returncode:
                    rows.append((name, check, expect, "PATCH-STALE", r.stderr[:100]))
                    continue
            suite = ""
            env = dict(os.environ, PYTHONDONTWRITEBYTECODE="1")
            if args.suite:
                r = sh(["/venv/bin/python", "-m", "pytest", "-q", "-p", "no:cacheprovider", "--timeout=900",
                        "--continue-on-collection-errors"], cwd=tree, env=dict(env, PYTHONPATH=tree))
                suite = (r.stdout.strip().splitlines() or ["?"])[-1]
            ev = os.path.join(VERIF, "evidence", check + ".json")
            keep = open(ev).read() if os.path.exists(ev) else None
            cmd = ["timeout", "1800", os.path.join(VERIF, "run"), check, "--tier", "quick"]
            if args.runs:
                cmd += ["--runs", args.runs]
            r = sh(cmd, env=dict(env, VERIF_REPO=tree), cwd=VERIF)
            if keep is not None:
                open(ev, "w").write(keep)
            first = [l for l in r.stdout.splitlines() if l.startswith("violation:")]
            inv = ""
            if first:
                try:
                    inv = json.loads(first[0][len("violation: "):]).get("inv", "")
                except Exception:
                    pass
            rows.append((name, check, expect, r.returncode, inv + (" " + suite if suite else "")))
            print("%-42s %-4s expected %d got %-10s %s" % rows[-1], flush=True)
    finally:
        sh(["git", "-C", "/repo", "worktree", "remove", "--force", tree])
        shutil.rmtree(base, ignore_errors=True)
        sh(["git", "-C", "/repo", "worktree", "prune"])
    bad = [r for r in rows if r[3] != r[2]]
    print("%d mutants run, %d with an unexpected outcome" % (len(rows), len(bad)))
    return 1 if bad else 0


if __name__ == "__main__":
    sys.exit(main())
