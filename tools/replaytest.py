import subprocess, os, sys, re, tempfile, shutil
sys.path.insert(0,'/verif/tools')
import mutants as M
want = {"C18":"c18_copy_instead_of_rename","C17":"c17_template_reload_lt","C11":"c11_no_lock","C11b":"c11_python_vector_not_reset","C01":"c01_close_gt"}
base=tempfile.mkdtemp(prefix="replaytest-",dir="/tmp"); tree=os.path.join(base,"tree")
subprocess.run(["git","-C","/repo","worktree","add","-q","--detach",tree,"HEAD"],check=True)
try:
    for key,name in want.items():
        check=key[:3]
        subprocess.run(["git","-C",tree,"checkout","-q","--","."])
        spec=[m for m in M.MUTANTS if m[0]==name][0]
        for f,old,new in spec[3]:
            p=os.path.join(tree,f); s=open(p).read(); assert old in s; open(p,"w").write(s.replace(old,new))
        env=dict(os.environ,VERIF_REPO=tree)
        r=subprocess.run(["/verif/run",check,"--runs","300"],env=env,capture_output=True,text=True,cwd="/verif")
        paths=re.findall(r"VIOLATION property=\S+ replay=(\S+)",r.stdout)
        print(name,"check exit",r.returncode,"replays",len(paths))
        for p in paths[:2]:
            for rep in range(2):
                r2=subprocess.run(["/verif/run",check,"--replay",p],env=env,capture_output=True,text=True,cwd="/verif")
                line=[l for l in r2.stdout.splitlines() if l.startswith("replay digest")]
                print("   replay exit",r2.returncode,(line or ["?"])[0][:110])
finally:
    subprocess.run(["git","-C","/repo","worktree","remove","--force",tree]); shutil.rmtree(base,ignore_errors=True)
