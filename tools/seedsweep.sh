#!/bin/bash
# Run every check's quick tier under several VERIF_SEED values; report exit codes.
# (False-alarm hunt on the unchanged tree: every line must end in "exit 0".)
cd "$(dirname "$0")/.." || exit 2
rc=0
for seed in ${SEEDS:-1 2 3 4 5 6 7 8}; do
  for c in C18 C17 C11 C01; do
    out=$(VERIF_SEED=$seed timeout 1500 ./run $c --tier quick 2>&1)
    e=$?
    echo "seed $seed $c exit $e $(echo "$out" | grep -c '^VIOLATION') violation lines, $(echo "$out" | grep -c '^KNOWN-FINDING') known, $(echo "$out" | grep -c '^HARNESS') harness"
    [ $e -ne 0 ] && { rc=1; echo "$out" | grep -E '^(violation|VIOLATION|HARNESS)' | head -5; }
  done
done
exit $rc
